#!/bin/sh
# Offline setup: nothing to build.  Verifies that the interpreter the checks use can
# import gotranx from /repo's working tree and hypothesis; installs hypothesis from the
# offline wheelhouse if it is absent; marks the stub peer and the dispatcher executable.
set -e
cd "$(dirname "$0")"
PY="${VERIF_PYTHON:-/venv/bin/python}"
if ! "$PY" -c "import hypothesis" 2>/dev/null; then
  "$PY" -m pip install --no-index --find-links /opt/veriftools/wheels hypothesis
fi
PYTHONPATH=/repo/src "$PY" -c "
import gotranx, hypothesis, sys
assert gotranx.__file__.startswith('/repo/src'), gotranx.__file__
print('setup ok: gotranx from', gotranx.__file__, 'hypothesis', hypothesis.__version__)
"
chmod +x check sim/stubs/clang-format 2>/dev/null || true
mkdir -p evidence
