#!/bin/sh
# Soak: run a check at many seeds on the current tree; any non-zero exit is kept with its output.
#   tools/soak.sh <C09|C18> <tier> <first_seed> <n>      (evidence redirected to a scratch dir)
prop="$1"; tier="$2"; s0="$3"; n="$4"
cd "$(dirname "$0")/.." || exit 3
ev=$(mktemp -d /tmp/gotranx-verif-soak-XXXXXX)
bad=0; i=0
while [ $i -lt "$n" ]; do
  seed=$((s0 + i))
  out=$(VERIF_SEED=$seed VERIF_EVIDENCE_DIR="$ev" ./check "$prop" "$tier" 2>&1); rc=$?
  echo "$prop $tier seed=$seed rc=$rc :: $(echo "$out" | tail -1)"
  if [ $rc -ne 0 ]; then bad=$((bad + 1)); echo "$out" | tail -40; [ -d "$ev/replays" ] && cp -r "$ev/replays" "soak_replays_$prop_$seed" 2>/dev/null; fi
  i=$((i + 1))
done
rm -rf "$ev"
echo "soak $prop $tier: $n seeds from $s0, $bad non-zero"
[ $bad -eq 0 ]
