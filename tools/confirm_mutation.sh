#!/bin/sh
# Confirm a sub-agent's seeded change independently, in a fresh scratch worktree:
#   tools/confirm_mutation.sh <id> <dir with patch.diff and demo.py|demo.sh>
# 1. patch applies to /repo HEAD   2. the 263 baseline tests still pass with it
# 3. the demonstration fails with the change and passes on /repo   (worktree removed afterwards)
id="$1"; src="$2"
wt="/tmp/cm_$id"
git -C /repo worktree remove --force "$wt" 2>/dev/null
git -C /repo worktree add --detach -q "$wt" HEAD || exit 3
trap 'git -C /repo worktree remove --force "$wt" 2>/dev/null; rm -rf "$wt" /tmp/cm_$id.xml' EXIT
git -C "$wt" apply "$src/patch.diff" || { echo "PATCH-DOES-NOT-APPLY"; exit 3; }
echo "== files changed:"; git -C "$wt" diff --stat | tail -5
demo="$src/demo.py"; run="/venv/bin/python"
[ -f "$src/demo.sh" ] && { demo="$src/demo.sh"; run="sh"; }
echo "== demo WITH change (expect non-zero)"
( cd /tmp && GOTRANX_SRC="$wt/src" VERIF_REPO="$wt" timeout 900 $run "$demo" >/tmp/cm_$id.with.log 2>&1 ); echo "exit=$?"; tail -3 /tmp/cm_$id.with.log
echo "== demo WITHOUT change (expect 0)"
( cd /tmp && GOTRANX_SRC=/repo/src VERIF_REPO=/repo timeout 900 $run "$demo" >/tmp/cm_$id.without.log 2>&1 ); echo "exit=$?"; tail -2 /tmp/cm_$id.without.log
echo "== baseline tests with change"
( cd "$wt" && PYTHONPATH="$wt/src" /venv/bin/python -m pytest -q -p no:cacheprovider --timeout=900 --continue-on-collection-errors --junitxml=/tmp/cm_$id.xml >/tmp/cm_$id.tests.log 2>&1 ); tail -1 /tmp/cm_$id.tests.log
python3 - "$id" <<'PY'
import json, sys, xml.etree.ElementTree as ET
b=json.load(open('/root/.vp/BASELINE.json'))
t=ET.parse('/tmp/cm_%s.xml'%sys.argv[1])
passed=set()
for tc in t.iter('testcase'):
    if not any(c.tag in('failure','error','skipped') for c in tc):
        passed.add(tc.get('classname')+'::'+tc.get('name'))
miss=[x for x in b['stable_pass'] if x not in passed]
print("baseline stable tests passing: %d of %d; missing: %s" % (len(b['stable_pass'])-len(miss), len(b['stable_pass']), miss[:5]))
PY
