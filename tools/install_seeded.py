#!/usr/bin/env python3
"""tools/install_seeded.py <stage dir> <confirm log> <id> <property> <change> <needs>
Copies a confirmed sub-agent change into /verif/seeded/<id>/ with its meta.json."""
import json, os, shutil, sys
stage, log, sid, prop, change, needs = sys.argv[1:7]
d = '/verif/seeded/' + sid
os.makedirs(d, exist_ok=True)
for f in ('patch.diff', 'demo.py', 'demo.sh', 'notes.md'):
    if os.path.exists(os.path.join(stage, f)):
        shutil.copy(os.path.join(stage, f), os.path.join(d, f))
txt = open(log).read()
assert 'exit=1' in txt and 'exit=0' in txt and 'passing: 263 of 263' in txt, 'confirmation log does not show all three facts'
json.dump({"id": sid, "property": prop,
  "origin": "written by an independent sub-agent that was given only the property text and its own scratch worktree (nothing from /verif)",
  "change": change, "needs_to_manifest": needs,
  "demonstration": "demo.py: GOTRANX_SRC=<tree>/src /venv/bin/python demo.py -> exit 1 with the patch, exit 0 on /repo",
  "what_i_ran": "tools/confirm_mutation.sh in a fresh scratch worktree of /repo HEAD: patch applies; demo exit 1 with / exit 0 without; full baseline suite with the patch: 263 of 263 stable tests pass (10 failed/12 errors are the baseline's always-failing set); then ./check sensitivity",
  "confirm_log_tail": txt[-600:]}, open(d + '/meta.json', 'w'), indent=1)
print('installed', d)
