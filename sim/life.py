"""One interpreter *life* of the C09 simulation.

Launched by the driver as a fresh `/venv/bin/python /verif/sim/life.py <plan.json>`
with PYTHONHASHSEED set to the life's hash key.  The worker is a dumb executor of
the JSON plan: it draws no random numbers and no wall-clock value enters anything
it reports (a per-op SIGALRM only turns a runaway op into a `timeout`, which makes
the whole life *unjudged*, never a violation).  The result is written to the path
named in the plan; stdout/stderr of the system under test go to /dev/null.
"""

from __future__ import annotations

import gc
import json
import os
import signal
import sys
import time
import warnings
from pathlib import Path

HERE = Path(__file__).resolve().parent
sys.path.insert(0, str(HERE.parent))

from sim import obs  # noqa: E402


class OpTimeout(BaseException):
    pass


def _alarm(signum, frame):
    raise OpTimeout()


class Life:
    def __init__(self, plan: dict):
        self.plan = plan
        self.scratch = Path(plan["scratch"])
        self.scratch.mkdir(parents=True, exist_ok=True)
        self.shared = Path(plan.get("shared", plan["scratch"]))
        self.texts = plan["texts"]
        self.handles: dict = {}
        self.held: dict = {}
        self.codegens: dict = {}
        self._opt_objects: dict = {}
        self.nfile = 0

        import gotranx  # noqa: F401  (the system under test, from /repo's working tree)
        import sympy.core.random as sympy_random

        # seam: sympy shuffles its assumption queries with an entropy-seeded RNG (and tests
        # numeric equality at random points); the life's schedule owns that seed
        sympy_random.seed(int(plan.get("sympy_seed", 0)))
        import structlog
        import logging

        structlog.configure(wrapper_class=structlog.make_filtering_bound_logger(logging.ERROR))
        self.gotranx = gotranx

    # ------------------------------------------------------------------ helpers
    def _sig(self, ode) -> str:
        """Iteration-order signature: how this interpreter's hash key happened to
        order the sets the sorter and the components iterate (reach measure only)."""
        parts = []
        for a in ode.intermediates + ode.state_derivatives:
            if a.value is not None:
                parts.append([a.name, list(a.value.dependencies)])
        comps = []
        for c in ode.components:
            comps.append([c.name, [a.name for a in c.assignments], [s.name for s in c.states]])
        return obs.sha(obs.canon([parts, comps]))[:16]

    def _layout(self, ode) -> dict:
        return {
            "state": [s.name for s in ode.sorted_states()],
            "parameter": [p.name for p in ode.parameters],
            "monitor": [a.name for a in ode.sorted_assignments()],
            "missing": list(ode.missing_variables.keys()),
        }

    def _codegen(self, h: str, backend: str, remove_unused: bool):
        key = (h, backend, remove_unused)
        if key not in self.codegens:
            ode = self.handles[h]["ode"]
            from gotranx import codegen as cg

            if backend == "numpy":
                g = cg.PythonCodeGenerator(ode, format=cg.PythonFormat.none, remove_unused=remove_unused)
            elif backend == "jax":
                g = cg.JaxCodeGenerator(ode, format=cg.PythonFormat.none, remove_unused=remove_unused)
            else:
                g = cg.CCodeGenerator(ode, format=cg.CFormat.none, remove_unused=remove_unused)
            self.codegens[key] = g
        return self.codegens[key]

    def _scheme_kwargs(self, alias: str, delta, stiff):
        kw = {}
        if "rush_larsen" in alias:
            kw["delta"] = delta
        if alias in ("hybrid_rush_larsen", "rush_larsen", "forward_rush_larsen"):
            kw["stiff_states"] = stiff
        return kw

    def _stiff(self, ode, picks):
        """The stiff-state list for these picks.  The SAME list object is handed out for
        the same (model object, picks) every time - like a caller who keeps one options
        dict and passes it to several generations - so that a callee which mutates its
        arguments shows up as a dependence on previous calls."""
        ck = (id(ode), tuple(picks or []))
        if ck not in self._opt_objects:
            names = sorted(s.name for s in ode.states)
            out = []
            for k in picks or []:
                if k == -1:
                    out.append("not_a_state_zz")
                elif names:
                    out.append(names[k % len(names)])
            self._opt_objects[ck] = (ode, out)  # keep `ode` alive so id() stays unique
        return self._opt_objects[ck][1]

    # ---------------------------------------------------------------------- ops
    def op_LOAD(self, op, ev):
        text = self.texts[op["m"]]
        name = op.get("name", "model")
        from gotranx.load import ode_from_string, load_ode

        if op.get("via", "string") == "file":
            self.nfile += 1
            d = self.scratch / ("f%d" % self.nfile)
            d.mkdir(exist_ok=True)
            path = d / (name + ".ode")
            path.write_text(text)
            ode = load_ode(path)
        else:
            ode = ode_from_string(text, name=name)
        mkey = obs.sha(text)[:16]
        self.handles[op["h"]] = {"ode": ode, "mkey": mkey, "judged": True, "partner": None}
        ev["mkey"] = mkey
        ev["sig"] = self._sig(ode)
        ev["nstates"] = ode.num_states
        ev["ncomp"] = ode.num_components

    def op_DERIVE(self, op, ev):
        src = self.handles[op["h"]]
        ode = src["ode"]
        how = op["how"]
        new = {"judged": src["judged"], "partner": None}
        if how in ("comp", "minus"):
            names = sorted(c.name for c in ode.components)
            cname = names[op.get("ci", 0) % len(names)]
            comp = ode.get_component(cname)
            if how == "comp":
                new["ode"] = comp.to_ode()
            else:
                new["ode"] = ode - comp
            new["mkey"] = "%s/%s[%s]" % (src["mkey"], how, cname)
            ev["multi"] = len(names) > 1
        elif how == "reload":
            from gotranx.load import load_ode

            self.nfile += 1
            d = self.scratch / ("r%d" % self.nfile)
            d.mkdir(exist_ok=True)
            path = d / "model.ode"
            ode.save(path)
            text = path.read_text()
            # the bytes save() wrote: recorded as a probe, never judged (C09 speaks of
            # generated code; the reloaded model is judged under the sha of *its* text)
            ev["probe"] = {"key": "SAVE|" + src["mkey"], "digest": obs.sha(text)}
            new["ode"] = load_ode(path)
            new["mkey"] = obs.sha(text)[:16]
            new["judged"] = True
        elif how == "simplify":
            new["ode"] = ode.simplify()
            new["mkey"] = src["mkey"] + "/simplify"
            new["judged"] = False
        elif how == "nosing":
            new["ode"] = ode.remove_singularities()
            new["mkey"] = src["mkey"] + "/nosing"
            new["judged"] = False
        else:
            raise ValueError(how)
        self.handles[op["new"]] = new
        ev["mkey"] = new["mkey"]
        ev["nmissing"] = len(new["ode"].missing_variables)

    def op_GEN(self, op, ev):
        hd = self.handles[op["h"]]
        ode = hd["ode"]
        o = op["opts"]
        from gotranx.cli import gotran2py, gotran2c
        from gotranx.schemes import Scheme
        from gotranx.codegen import PythonFormat, CFormat
        from gotranx.codegen.base import Shape

        sk = (id(ode), "schemes", tuple(o.get("schemes", [])))
        if sk not in self._opt_objects:
            self._opt_objects[sk] = (ode, [Scheme[s] for s in o.get("schemes", [])] or None)
        schemes = self._opt_objects[sk][1]
        stiff = self._stiff(ode, o.get("stiff"))
        missing = None
        if o.get("missing"):
            mk = (id(ode), "missing", tuple(o["missing"]))
            if mk not in self._opt_objects:
                pool = sorted([s.name for s in ode.states] + [a.name for a in ode.intermediates])
                mv = {}
                for j, k in enumerate(o["missing"]):
                    nm = pool[k % len(pool)]
                    if nm not in mv:
                        mv[nm] = len(mv)
                self._opt_objects[mk] = (ode, mv)
            missing = self._opt_objects[mk][1]
        ev["key"] = "GEN|%s|%s" % (hd["mkey"], obs.canon(o))
        ev["judged"] = hd["judged"]
        backend = o.get("backend", "numpy")
        if backend == "c":
            code = gotran2c.get_code(
                ode,
                scheme=schemes,
                format=CFormat(o.get("format", "none")),
                remove_unused=o.get("remove_unused", False),
                missing_values=missing,
                delta=o.get("delta", 1e-8),
                stiff_states=stiff,
            )
        else:
            code = gotran2py.get_code(
                ode,
                scheme=schemes,
                format=PythonFormat(o.get("format", "none")),
                remove_unused=o.get("remove_unused", False),
                missing_values=missing,
                delta=o.get("delta", 1e-8),
                stiff_states=stiff,
                backend=gotran2py.Backend(backend),
                shape=Shape(o.get("shape", "dynamic")),
            )
        ev["digest"] = obs.sha(code)
        ev["layout"] = obs.layout_of(code, backend)
        ev["nbytes"] = len(code)
        if o.get("remove_unused"):
            full = set(a.name for a in ode.intermediates)
            deps = ode.dependents()
            ev["ru_dropped"] = len([n for n in full if n not in deps])
        ev["piecewise"] = ("numpy.where(" in code) or ("?" in code and backend == "c")

    def op_PIECE(self, op, ev):
        hd = self.handles[op["h"]]
        backend = op.get("backend", "numpy")
        ru = op.get("remove_unused", False)
        method = op["method"]
        order = op.get("order")
        ev["key"] = "PIECE|%s|%s|%s|%s|%s" % (hd["mkey"], backend, int(ru), method, order)
        ev["judged"] = hd["judged"]
        g = self._codegen(op["h"], backend, ru)
        if method.startswith("scheme:"):
            alias = method.split(":", 1)[1]
            from gotranx.schemes import get_scheme

            kw = self._scheme_kwargs(alias, op.get("delta", 1e-8), self._stiff(hd["ode"], op.get("stiff")))
            f = get_scheme(alias)
            text = g.scheme(f, order=order, **kw) if order else g.scheme(f, **kw)
        elif method in ("rhs", "monitor_values"):
            text = getattr(g, method)(order=order) if order else getattr(g, method)()
        else:
            text = getattr(g, method)()
        ev["digest"] = obs.sha(text)

    def op_LAYOUT(self, op, ev):
        hd = self.handles[op["h"]]
        ev["key"] = "LAYOUT|%s" % hd["mkey"]
        ev["judged"] = hd["judged"]
        lay = self._layout(hd["ode"])
        ev["layout_api"] = lay
        ev["digest"] = obs.sha(obs.canon(lay))

    def op_API(self, op, ev):
        """Direct calls of public ODE / schemes / sympytools API on a loaded model: both a
        history perturbation (whatever they cache on the object is 'a previous call') and
        an observation of their own result."""
        import sympy
        import gotranx.schemes as S
        from gotranx import sympytools

        hd = self.handles[op["h"]]
        ode = hd["ode"]
        what = op["what"]
        ev["key"] = "API|%s|%s" % (hd["mkey"], what)
        # judged: results that are slot layout or generated code lines.  The string form of
        # the symbolic matrices / repr() is sympy's own printing of a symbolic object, about
        # which C09 says nothing: recorded as probes only (they still perturb the history).
        ev["judged"] = hd["judged"] and what not in ("rhs_matrix", "repr_eq")
        dt = sympy.Symbol("dt")
        if what == "sorted_assignments_ru":
            res = [a.name for a in ode.sorted_assignments(remove_unused=True)]
        elif what == "sorted_assignments_all":
            res = [a.name for a in ode.sorted_assignments(assignments_only=False)]
        elif what == "sorted_state_derivatives":
            res = [a.name for a in ode.sorted_state_derivatives()]
        elif what == "scheme_direct_ru":
            res = S.explicit_euler(ode, dt, remove_unused=True)
        elif what == "scheme_direct":
            res = S.explicit_euler(ode, dt)
        elif what == "scheme_direct_grl_ru":
            res = S.generalized_rush_larsen(ode, dt, remove_unused=True)
        elif what == "scheme_direct_hrl":
            res = S.hybrid_rush_larsen(ode, dt, stiff_states=sorted(s.name for s in ode.states)[:2])
        elif what == "dependents":
            d = ode.dependents()
            res = sorted((k, sorted(v)) for k, v in d.items())
        elif what == "missing_variables":
            res = list(ode.missing_variables.items())
        elif what == "states_params":
            res = [[s.name for s in ode.states], [p.name for p in ode.parameters], [i.name for i in ode.intermediates],
                   [d.name for d in ode.state_derivatives]]
        elif what == "rhs_matrix":
            res = str(sympytools.rhs_matrix(ode))
        elif what == "states_matrix":
            res = str(sympytools.states_matrix(ode))
        elif what == "repr_eq":
            res = [repr(ode), ode == ode]
        else:
            raise ValueError(what)
        ev["digest"] = obs.sha(obs.canon(res))

    def op_HOLD(self, op, ev):
        from gotranx.schemes import get_scheme

        self.held[op["slot"]] = (op["alias"], get_scheme(op["alias"]))

    def op_USE_HELD(self, op, ev):
        hd = self.handles[op["h"]]
        alias, f = self.held[op["slot"]]
        backend = op.get("backend", "numpy")
        ev["key"] = "HELD|%s|%s|%s" % (hd["mkey"], backend, alias)
        ev["judged"] = hd["judged"]
        g = self._codegen(op["h"], backend, False)
        text = g.scheme(f, **self._scheme_kwargs(alias, 1e-8, []))
        ev["digest"] = obs.sha(text)
        ev["first_line"] = next((ln for ln in text.splitlines() if ln.strip()), "")[:120]

    def op_USE_PUBLIC(self, op, ev):
        hd = self.handles[op["h"]]
        import gotranx.schemes as S

        fn = op["fn"]
        backend = op.get("backend", "numpy")
        ev["key"] = "PUBLIC|%s|%s|%s" % (hd["mkey"], backend, fn)
        ev["judged"] = hd["judged"]
        g = self._codegen(op["h"], backend, False)
        text = g.scheme(getattr(S, fn), **self._scheme_kwargs(fn, 1e-8, []))
        ev["digest"] = obs.sha(text)
        ev["first_line"] = next((ln for ln in text.splitlines() if ln.strip()), "")[:120]

    def op_GET_SCHEME(self, op, ev):
        from gotranx.schemes import get_scheme

        get_scheme(op["alias"])

    def op_CLI_INPROC(self, op, ev):
        import typer.main
        from gotranx.cli import app

        argv = [a.replace("{scratch}", str(self.scratch)) for a in op["argv"]]
        if op.get("m"):
            p = self.scratch / "cli_model.ode"
            p.write_text(self.texts[op["m"]])
            argv = [a.replace("{model}", str(p)) for a in argv]
        cmd = typer.main.get_command(app)
        try:
            cmd.main(args=argv, standalone_mode=False)
        except SystemExit:
            pass
        import structlog
        import logging

        structlog.configure(wrapper_class=structlog.make_filtering_bound_logger(logging.ERROR))

    def op_CLI_GEN(self, op, ev):
        """Observation through the command line (in-process): the bytes `ode2py` /
        `ode2c` write for this model text and these arguments."""
        import typer.main
        from gotranx.cli import app

        text = self.texts[op["m"]]
        args = list(op["args"])
        ev["key"] = "CLI|%s|%s" % (obs.sha(text)[:16], obs.canon(args))
        ev["judged"] = True
        self.nfile += 1
        d = self.scratch / ("cli%d" % self.nfile)
        d.mkdir(exist_ok=True)
        (d / "model.ode").write_text(text)
        argv = [args[0], str(d / "model.ode"), "-o", str(d / "out")] + args[1:]
        code = 0
        try:
            typer.main.get_command(app).main(args=argv, standalone_mode=False)
        except SystemExit as e:
            code = e.code if isinstance(e.code, int) else 1
        finally:
            import structlog
            import logging

            structlog.configure(wrapper_class=structlog.make_filtering_bound_logger(logging.ERROR))
        outs = sorted(p for p in d.iterdir() if p.name.startswith("out"))
        if outs:
            ev["digest"] = obs.sha(outs[0].read_bytes())
            ev["nbytes"] = outs[0].stat().st_size
        else:
            ev["digest"] = "exit:%s" % code

    def op_MYOKIT(self, op, ev):
        import gotranx.myokit as M

        M.mmt_to_gotran("/repo/tests/mmt_files/example.mmt")

    def op_CLEAR_CACHE(self, op, ev):
        from sympy.core.cache import clear_cache

        clear_cache()

    def op_GC(self, op, ev):
        gc.collect()

    def op_SAVE_ARRAY(self, op, ev):
        """Life A: run the generated NumPy module and store the state vector with no names."""
        import numpy as np
        from gotranx.cli import gotran2py
        from gotranx.codegen import PythonFormat
        from gotranx.schemes import Scheme

        hd = self.handles[op["h"]]
        ev["key"] = "ARRAY|%s|%s" % (hd["mkey"], op["file"])
        ev["judged"] = hd["judged"]
        code = gotran2py.get_code(hd["ode"], scheme=[Scheme.explicit_euler], format=PythonFormat.none)
        ns: dict = {}
        with np.errstate(all="ignore"):
            exec(compile(code, "<generated>", "exec"), ns)
            y = ns["init_state_values"]()
            p = ns["init_parameter_values"]()
            for k in range(3):
                y = np.asarray(ns["explicit_euler"](y, 0.01 * k, 0.01, p), dtype=float)
        # make every slot distinguishable even if the dynamics produced equal/NaN values
        y = np.where(np.isfinite(y), y, 0.0) + 1e-3 * np.arange(1, len(y) + 1)
        self.shared.mkdir(parents=True, exist_ok=True)
        np.save(self.shared / (op["file"] + ".npy"), y)
        named = {n: repr(float(y[i])) for n, i in ns["state"].items()}
        ev["named"] = named
        ev["digest"] = obs.sha(obs.canon(named))

    def op_NAME_ARRAY(self, op, ev):
        """Life B: regenerate the module and give the stored vector *its* slot names."""
        import numpy as np
        from gotranx.cli import gotran2py
        from gotranx.codegen import PythonFormat

        hd = self.handles[op["h"]]
        ev["key"] = "ARRAY|%s|%s" % (hd["mkey"], op["file"])
        ev["judged"] = hd["judged"]
        path = self.shared / (op["file"] + ".npy")
        if not path.exists():
            ev["skip"] = "nofile"
            ev["judged"] = False
            ev["digest"] = "skip"
            return
        code = gotran2py.get_code(hd["ode"], format=PythonFormat.none)
        ns: dict = {}
        exec(compile(code, "<generated>", "exec"), ns)
        y = np.load(path)
        named = {n: repr(float(y[i])) for n, i in ns["state"].items()}
        ev["named"] = named
        ev["digest"] = obs.sha(obs.canon(named))
        ev["crossed_restart"] = True

    # --------------------------------------------------------------------- loop
    OBSERVING = {"GEN", "PIECE", "LAYOUT", "USE_HELD", "USE_PUBLIC", "SAVE_ARRAY", "NAME_ARRAY", "CLI_GEN", "API"}

    def run(self) -> dict:
        events = []
        timeout = int(self.plan.get("op_timeout", 120))
        signal.signal(signal.SIGALRM, _alarm)
        timed_out = False
        tainted_from = None  # index of the first op that hit a timeout: everything from there on is unjudged
        for i, op in enumerate(self.plan["ops"]):
            ev = {"i": i, "op": op["op"]}
            fn = getattr(self, "op_" + op["op"])
            t_op = time.perf_counter()  # reporting only: never enters a digest or a decision
            signal.alarm(min(timeout, 10) if op.get("how") in ("simplify", "nosing") else timeout)
            try:
                fn(op, ev)
                ev["status"] = "ok"
            except OpTimeout:
                ev["status"] = "timeout"
                timed_out = True
                if tainted_from is None:
                    tainted_from = i
            except KeyError as e:
                # a handle whose LOAD/DERIVE failed earlier: not an observation
                if op["op"] in self.OBSERVING and "key" in ev:
                    ev["status"] = "exc:KeyError"
                    ev["digest"] = "exc:KeyError"
                else:
                    ev["status"] = "nohandle:%s" % (e,)
            except Exception as e:  # the SUT raised: that *is* the observation
                ev["status"] = "exc:" + type(e).__name__
                if "key" in ev:
                    ev["digest"] = ev["status"]
                ev["msg"] = str(e)[:200]
            finally:
                signal.alarm(0)
            ev["ms"] = int((time.perf_counter() - t_op) * 1000)
            events.append(ev)
            if timed_out and op.get("how") not in ("simplify", "nosing"):
                break  # a runaway judged op: stop the life; a runaway *probe* only taints what follows
        return {
            "life": self.plan["life"],
            "hash_key": self.plan["hash_key"],
            "sympy_seed": self.plan.get("sympy_seed", 0),
            "hashseed_env": os.environ.get("PYTHONHASHSEED"),
            "timed_out": timed_out,
            "tainted_from": tainted_from,
            "events": events,
        }


def main():
    plan = json.loads(Path(sys.argv[1]).read_text())
    warnings.simplefilter("ignore")
    devnull = open(os.devnull, "w")
    sys.stdout = devnull
    sys.stderr = devnull
    os.dup2(devnull.fileno(), 1)
    os.dup2(devnull.fileno(), 2)
    if str(os.environ.get("PYTHONHASHSEED")) != str(plan["hash_key"]):
        result = {"life": plan["life"], "harness_error": "PYTHONHASHSEED not applied"}
    else:
        try:
            result = Life(plan).run()
        except BaseException as e:  # harness trouble, reported apart from violations
            import traceback

            result = {"life": plan["life"], "harness_error": "%s: %s" % (type(e).__name__, e),
                      "trace": traceback.format_exc()[-2000:]}
    tmp = plan["result"] + ".tmp"
    Path(tmp).write_text(json.dumps(result))
    os.replace(tmp, plan["result"])


if __name__ == "__main__":
    main()
