"""Shared driver plumbing: seed handling, scratch roots, life execution, canonical
event logs, evidence and known-findings files.

Rules (DESIGN §2): only the driver holds a PRNG; the driver never iterates an
unordered container (it re-execs itself under PYTHONHASHSEED=0 *and* sorts
everything anyway); results are merged by life index, never by completion order;
wall-clock time is used for budgets only.
"""

from __future__ import annotations

import atexit
import json
import os
import shutil
import subprocess
import sys
import tempfile
import time
from concurrent.futures import ThreadPoolExecutor
from pathlib import Path

from . import obs

VERIF = Path(__file__).resolve().parent.parent
REPO = Path(os.environ.get("VERIF_REPO", "/repo"))
PY = os.environ.get("VERIF_PYTHON", "/venv/bin/python")
EVIDENCE = Path(os.environ.get("VERIF_EVIDENCE_DIR") or (VERIF / "evidence"))
REPLAYS = EVIDENCE / "replays"
KNOWN = VERIF / "known_findings.json"

EXIT_OK = 0
EXIT_VIOLATION = 1
EXIT_HARNESS = 3


class HarnessError(Exception):
    pass


def reexec_with_fixed_hashseed():
    """The driver itself must not depend on its own hash key."""
    want = os.environ.get("VERIF_DRIVER_HASHSEED", "0")
    if os.environ.get("PYTHONHASHSEED") != want:
        env = dict(os.environ)
        env["PYTHONHASHSEED"] = want
        os.execve(sys.executable, [sys.executable] + sys.argv, env)


def get_seed(default: int = 20261001) -> int:
    v = os.environ.get("VERIF_SEED", "")
    try:
        return int(v)
    except ValueError:
        return default


_scratch_roots: list = []


def scratch_root(tag: str) -> Path:
    base = os.environ.get("VERIF_SCRATCH") or os.environ.get("TMPDIR") or "/tmp"
    Path(base).mkdir(parents=True, exist_ok=True)
    root = Path(tempfile.mkdtemp(prefix="gotranx-verif-%s-" % tag, dir=base))
    _scratch_roots.append(root)
    return root


@atexit.register
def _cleanup():
    for r in _scratch_roots:
        shutil.rmtree(r, ignore_errors=True)


def life_env(root: Path, hash_key: int, extra: dict | None = None) -> dict:
    env = {
        "PYTHONHASHSEED": str(hash_key),
        "PYTHONPATH": str(REPO / "src"),
        "PYTHONDONTWRITEBYTECODE": "1",
        "HOME": str(root / "home"),
        "XDG_CONFIG_HOME": str(root / "home" / ".config"),
        "XDG_CACHE_HOME": str(root / "home" / ".cache"),
        "TMPDIR": str(root / "tmp"),
        "PATH": os.environ.get("VERIF_LIFE_PATH", "/venv/bin:/usr/local/bin:/usr/bin:/bin"),
        "LANG": "C.UTF-8",
        "LC_ALL": "C.UTF-8",
        "JAX_PLATFORMS": "cpu",
        "OMP_NUM_THREADS": "1",
        "OPENBLAS_NUM_THREADS": "1",
        "MKL_NUM_THREADS": "1",
    }
    if extra:
        env.update(extra)
    return env


def run_lives(plans: list, root: Path, workers: int = 16, budget_s: float = 900.0) -> list:
    """Execute life plans, each in a fresh interpreter under its hash key.

    Returns results ordered like `plans`.  A life that crashes, is killed by the
    budget or reports a harness error raises HarnessError (never a violation)."""
    root.mkdir(parents=True, exist_ok=True)
    life_py = str(VERIF / "sim" / "life.py")

    def one(idx_plan):
        idx, plan = idx_plan
        pdir = root / ("life%05d" % idx)
        (pdir / "home").mkdir(parents=True, exist_ok=True)
        (pdir / "tmp").mkdir(parents=True, exist_ok=True)
        plan = dict(plan)
        plan.setdefault("scratch", str(pdir / "fs"))
        plan.setdefault("shared", str(root / "shared"))
        plan["result"] = str(pdir / "result.json")
        pfile = pdir / "plan.json"
        pfile.write_text(json.dumps(plan))
        t0 = time.time()
        try:
            cp = subprocess.run(
                [PY, life_py, str(pfile)],
                env=life_env(pdir, plan["hash_key"]),
                stdin=subprocess.DEVNULL,
                stdout=subprocess.DEVNULL,
                stderr=subprocess.PIPE,
                timeout=budget_s,
                cwd=str(pdir),
            )
        except subprocess.TimeoutExpired:
            return {"life": plan["life"], "harness_error": "wall budget %.0fs exceeded" % budget_s}
        rfile = Path(plan["result"])
        if not rfile.exists():
            return {
                "life": plan["life"],
                "harness_error": "worker exit %s without result: %s"
                % (cp.returncode, cp.stderr.decode("utf-8", "replace")[-800:]),
            }
        res = json.loads(rfile.read_text())
        res["wall_s"] = time.time() - t0
        for sub in ("fs", "home", "tmp"):
            shutil.rmtree(pdir / sub, ignore_errors=True)
        return res

    # longest histories first (shorter tail); results are still returned in plan order
    order = sorted(range(len(plans)), key=lambda i: (-len(plans[i].get("ops", [])), i))
    results: list = [None] * len(plans)
    with ThreadPoolExecutor(max_workers=workers) as ex:
        futs = {i: ex.submit(one, (i, plans[i])) for i in order}
        for i in order:
            results[i] = futs[i].result()
    for r in results:
        if "harness_error" in r:
            raise HarnessError("life %s: %s %s" % (r.get("life"), r["harness_error"], r.get("trace", "")))
    return results


def run_phased(plans: list, root: Path, workers: int, budget_s: float) -> list:
    """Run lives phase by phase (phase 0 first); order of results == order of plans."""
    phases = sorted({p.get("phase", 0) for p in plans})
    out: dict = {}
    for ph in phases:
        idx = [i for i, p in enumerate(plans) if p.get("phase", 0) == ph]
        batch = [dict(plans[i], shared=str(root / "shared")) for i in idx]
        res = run_lives(batch, root / ("ph%d" % ph), workers, budget_s)
        for i, r in zip(idx, res):
            out[i] = r
    return [out[i] for i in range(len(plans))]


def canonical_log(results: list) -> str:
    """sha256 over the ordered list of (life, op index, op, key, digest/status).
    Lives that hit an op timeout are excluded (they are unjudged and load-dependent)."""
    rows = []
    for r in results:
        if r.get("timed_out"):
            continue
        for ev in r["events"]:
            rows.append([r["life"], ev["i"], ev["op"], ev.get("key"), ev.get("digest"), ev["status"].split(":")[0] if ev["status"].startswith("nohandle") else ev["status"]])
    return obs.sha(obs.canon(rows))


# ---------------------------------------------------------------- known findings


def load_known(prop: str) -> tuple[list, list]:
    """(findings, fixed) entries for a property; the file is never written at run time."""
    if not KNOWN.exists():
        return [], []
    data = json.loads(KNOWN.read_text())
    finds = [e for e in data.get("findings", []) if e.get("property") == prop]
    fixed = [e for e in data.get("fixed", []) if e.get("property") == prop]
    return finds, fixed


def match_known(violation: dict, findings: list):
    """A finding matches when every key of its `match` dict equals the violation's field."""
    for f in findings:
        m = f.get("match", {})
        if m and all(violation.get(k) == v for k, v in sorted(m.items())):
            return f
    return None


# ---------------------------------------------------------------------- evidence


def write_evidence(prop: str, tier: str, seed: int, coverage: dict, wall_s: float, violations: int,
                   assumptions: list, level: str = "exploration") -> Path:
    EVIDENCE.mkdir(parents=True, exist_ok=True)
    doc = {
        "property_id": prop,
        "tier": tier,
        "seed": int(seed),
        "level": level,
        "coverage": coverage,
        "assumptions": assumptions,
        "wall_s": round(float(wall_s), 2),
        "violations": int(violations),
    }
    path = EVIDENCE / ("%s.json" % prop)
    tmp = path.with_suffix(".json.tmp")
    tmp.write_text(json.dumps(doc, indent=1, sort_keys=True))
    os.replace(tmp, path)
    return path


def write_replay(prop: str, name: str, doc: dict) -> Path:
    REPLAYS.mkdir(parents=True, exist_ok=True)
    path = REPLAYS / name
    path.write_text(json.dumps(doc, indent=1, sort_keys=True))
    return path


def repo_state() -> dict:
    """What tree the check ran against (informational)."""
    def git(*a):
        try:
            return subprocess.run(["git", "-C", str(REPO)] + list(a), capture_output=True, text=True, timeout=30).stdout.strip()
        except Exception:
            return "?"
    return {"head": git("rev-parse", "--short", "HEAD"), "dirty_files": len([l for l in git("status", "--porcelain").splitlines() if l.strip()])}
