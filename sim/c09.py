"""C09 driver: generated code and slot layout are reproducible across processes.

Deployment = a sequence of interpreter *lives*; each life has a hash key (the hidden
schedule of every set traversal) and a call history.  Oracle: every observation key
(model text sha, derivation, canonical options, op kind) has exactly ONE digest in
the whole recorded history.  See DESIGN §3.
"""

from __future__ import annotations

import json
import os
import random
import sys
import time
from pathlib import Path

from . import core, modelgen, obs

ALIASES = [
    "forward_euler", "forward_explicit_euler", "euler", "explicit_euler",
    "forward_generalized_rush_larsen", "generalized_rush_larsen",
    "forward_rush_larsen", "rush_larsen", "hybrid_rush_larsen",
]
ALIAS_GROUP = {
    "forward_euler": "ee", "forward_explicit_euler": "ee", "euler": "ee", "explicit_euler": "ee",
    "forward_generalized_rush_larsen": "grl", "generalized_rush_larsen": "grl",
    "forward_rush_larsen": "hrl", "rush_larsen": "hrl", "hybrid_rush_larsen": "hrl",
}
MEMBERS = ["explicit_euler", "generalized_rush_larsen", "forward_explicit_euler",
           "forward_generalized_rush_larsen", "hybrid_rush_larsen"]
PUBLIC = ["explicit_euler", "generalized_rush_larsen", "hybrid_rush_larsen"]
RHS_ORDERS = ["stp", "spt", "tsp", "tps", "pst", "pts"]
SCHEME_ORDERS = ["stpd", "sptd", "tspd", "tpsd", "pstd", "ptsd", "stdp", "spdt", "tsdp", "tpds",
                 "psdt", "ptds", "sdtp", "sdpt", "tdsp", "tdps", "pdst", "pdts", "dstp", "dspt",
                 "dtsp", "dtps", "dpst", "dpts"]

TIERS = {
    # lives, random models, option sets per model, max models per life, large shipped models
    "quick": dict(lives=128, n_random=28, n_mut=2, optsets=3, per_life=(2, 4), large=False,
                  p_rl=0.35, budget=600, ddmin_trials=240, max_min_classes=3),
    "thorough": dict(lives=1500, n_random=320, n_mut=12, optsets=4, per_life=(2, 5), large=True,
                     p_rl=0.35, budget=1800, ddmin_trials=900, max_min_classes=8, max_attr_classes=60),
    "smoke": dict(lives=12, n_random=4, n_mut=1, optsets=2, per_life=(2, 3), large=False,
                  p_rl=0.3, budget=600, ddmin_trials=160, max_min_classes=2),
}


# ------------------------------------------------------------------ plan building


def build_pool(rng: random.Random, cfg: dict) -> list:
    pool = []
    for name in (modelgen.SHIPPED if cfg["large"] else modelgen.SHIPPED_SMALL):
        text = modelgen.shipped_text(name)
        pool.append({"src": "shipped:" + name, "text": text, "large": name in modelgen.SHIPPED[4:]})
    pool.append({"src": "handwritten:unicode", "text": modelgen.UNICODE_MODEL, "large": False})
    small = [p for p in pool if not p["large"] and p["src"].startswith("shipped")]
    for i in range(cfg["n_mut"]):
        base = small[2 + (i % 2)] if len(small) >= 4 else small[i % len(small)]
        pool.append({"src": "mutated:" + base["src"], "text": modelgen.mutate_shipped(rng, base["text"], 4),
                     "large": False})
    for i in range(cfg["n_random"]):
        pool.append({"src": "random", "text": modelgen.gen_model(rng), "large": False})
    # edited siblings: same identifiers and dependency sets, some formulas changed.  Lives
    # load a model and its sibling under the same name, in either order (a user edits an
    # equation and reloads) - the bait for anything cached across models.
    base = [p for p in pool if not p["large"]]
    n_sib = cfg.get("n_sibling", max(2, len(base) // 3))
    if os.environ.get("VERIF_C09_NO_SIBLINGS"):  # ablation switch for the sensitivity notes only
        n_sib = 0
    for i in range(n_sib):
        b = base[(i * 3) % len(base)]
        t2 = modelgen.edit_formulas(rng, b["text"], rng.randrange(1, 4))
        if t2 != b["text"]:
            sib = {"src": "sibling:" + b["src"], "text": t2, "large": False, "sibling_of": b}
            pool.append(sib)
            b.setdefault("siblings", []).append(sib)
    for i, p in enumerate(pool):
        p["id"] = "m%d" % i
        p["sha"] = obs.sha(p["text"])[:16]
    # identical texts would share keys, which is fine, but keep ids unique per text
    return pool


def draw_optset(rng: random.Random, cfg: dict, large: bool) -> dict:
    o: dict = {}
    backend = rng.choice(["numpy", "numpy", "c", "jax"])
    if backend != "numpy":
        o["backend"] = backend
    r = rng.random()
    if r < 0.25:
        sch = []
    elif r < 0.25 + cfg["p_rl"] and not large:
        sch = rng.sample(MEMBERS, rng.randrange(1, 4))
    elif r < 0.25 + cfg["p_rl"]:
        sch = [rng.choice(["explicit_euler", "generalized_rush_larsen"])]
    else:
        sch = [rng.choice(["explicit_euler", "forward_explicit_euler"])]
    if sch:
        o["schemes"] = sch
    if rng.random() < 0.4:
        o["remove_unused"] = True
    if sch and rng.random() < 0.3:
        o["delta"] = rng.choice([1e-6, 0.001])
    if "hybrid_rush_larsen" in sch:
        o["stiff"] = [rng.randrange(0, 12) for _ in range(rng.randrange(0, 4))] + ([-1] if rng.random() < 0.2 else [])
    if backend != "c" and not large and rng.random() < 0.2:
        o["format"] = "black"
    if backend == "c" and rng.random() < 0.3:
        o["format"] = "clang-format"  # the real clang-format that ships in /venv/bin (on the lives' PATH)
    if backend != "c" and rng.random() < 0.2:
        o["shape"] = rng.choice(["single", "multiple"])
    if backend != "c" and rng.random() < 0.15:
        o["missing"] = [rng.randrange(0, 40) for _ in range(rng.randrange(1, 4))]
    return o


def draw_pieces(rng: random.Random) -> list:
    out = []
    for _ in range(4):
        backend = rng.choice(["numpy", "numpy", "c", "jax"])
        m = rng.choice(["state_index", "parameter_index", "monitor_index", "missing_index",
                        "initial_state_values", "initial_parameter_values", "rhs", "rhs",
                        "monitor_values", "scheme", "scheme"])
        p = {"backend": backend, "remove_unused": rng.random() < 0.3, "method": m}
        if m in ("rhs", "monitor_values") and rng.random() < 0.7:
            p["order"] = rng.choice(RHS_ORDERS)
        if m == "scheme":
            p["method"] = "scheme:" + rng.choice(["explicit_euler", "forward_euler", "euler", "forward_explicit_euler"])
            if rng.random() < 0.6:
                p["order"] = rng.choice(SCHEME_ORDERS)
        out.append(p)
    return out


def decorate_pool(rng: random.Random, pool: list, cfg: dict) -> None:
    for p in pool:
        n = 2 if p["large"] else cfg["optsets"]
        sets = []
        # every model is observed at least once with plain defaults (numpy, no schemes)
        sets.append({})
        while len(sets) < n:
            o = draw_optset(rng, cfg, p["large"])
            if o not in sets:
                sets.append(o)
        p["optsets"] = sets
        p["pieces"] = draw_pieces(rng)
        p["held_alias"] = rng.choice(["forward_euler", "euler", "explicit_euler", "forward_explicit_euler"])
        p["public_fn"] = rng.choice(["explicit_euler", "explicit_euler", "generalized_rush_larsen"]) if not p["large"] else "explicit_euler"
        p["comp_ci"] = rng.randrange(0, 4)
        p["api_calls"] = rng.sample(API_CALLS, 3) if not p["large"] else ["sorted_assignments_ru", "states_params"]
        p["api_calls"] = sorted(set(p["api_calls"]))
        cli = rng.choice([["ode2py", "-f", "none"], ["ode2py", "-f", "none", "--scheme", "explicit_euler", "--remove-unused"],
                          ["ode2c", "-f", "none", "--to", ".c"], ["ode2c", "-f", "none", "--remove-unused", "--scheme", "explicit_euler"],
                          ["ode2py", "-f", "none", "-b", "jax"]])
        p["cli_args"] = cli


def merge_preserving(rng: random.Random, seqs: list) -> list:
    """Random interleaving of sequences that keeps each sequence's own order."""
    seqs = [list(s) for s in seqs if s]
    out = []
    while seqs:
        weights = [len(s) for s in seqs]
        k = rng.choices(range(len(seqs)), weights=weights)[0]
        out.append(seqs[k].pop(0))
        if not seqs[k]:
            seqs.pop(k)
    return out


def perturbation(rng: random.Random, pool: list, enabled: list) -> dict:
    kind = rng.choice(enabled)
    if kind == "GET_SCHEME":
        return {"op": "GET_SCHEME", "alias": rng.choice(ALIASES)}
    if kind == "CLI_INPROC":
        small = [p for p in pool if not p["large"]]
        m = rng.choice(small)
        r = rng.random()
        verbose = ["-v"] if rng.random() < 0.3 else []
        if r < 0.25:
            return {"op": "CLI_INPROC", "argv": ["list-schemes"]}
        if r < 0.6:
            return {"op": "CLI_INPROC", "m": m["id"],
                    "argv": ["ode2py", "{model}", "-o", "{scratch}/cli_out.py", "-f", rng.choice(["none", "none", "black"]),
                             "--scheme", rng.choice(MEMBERS)] + (["-b", "jax"] if rng.random() < 0.2 else []) + verbose}
        if r < 0.8:
            return {"op": "CLI_INPROC", "m": m["id"],
                    "argv": ["ode2c", "{model}", "-o", "{scratch}/cli_out", "-f", "none", "--to", rng.choice([".c", ".h"]),
                             "--delta", "0.001", "--scheme", "generalized_rush_larsen"] + verbose}
        if r < 0.9:
            return {"op": "CLI_INPROC", "m": m["id"],
                    "argv": ["convert", "{model}", "--to", rng.choice([".py", ".c"]), "-o", "{scratch}/cli_conv", "--remove-unused"] + verbose}
        return {"op": "CLI_INPROC",
                "argv": ["cellml2ode", "/repo/tests/cellml_files/noble_1962.cellml", "-o", "{scratch}/noble.ode"] + verbose}
    if kind == "LOAD_OTHER":
        m = rng.choice([p for p in pool if not p["large"]])
        return {"op": "LOAD", "h": "bait%d" % rng.randrange(10 ** 6), "m": m["id"],
                "via": rng.choice(["string", "file"])}
    return {"op": kind}


API_CALLS = ["sorted_assignments_ru", "sorted_assignments_ru", "sorted_assignments_all", "sorted_state_derivatives",
             "scheme_direct_ru", "scheme_direct_ru", "scheme_direct", "scheme_direct_grl_ru", "scheme_direct_hrl", "dependents",
             "missing_variables", "states_params", "rhs_matrix", "states_matrix", "repr_eq"]

PERT_KINDS = ["GET_SCHEME", "GET_SCHEME", "CLI_INPROC", "MYOKIT", "CLEAR_CACHE", "GC", "LOAD_OTHER"]


def build_life(rng: random.Random, k: int, pool: list, cfg: dict, phase: int, array_jobs: list) -> dict:
    """One life: hash key + history.  `array_jobs` carries saved-array files from
    phase 0 (list is appended to in phase 0, consumed in phase 1)."""
    hk = rng.choice([0, 1]) if rng.random() < 0.08 else rng.randrange(2, 2 ** 32)
    # swarm: which op kinds / perturbations this life uses
    enabled = [x for x in sorted(set(PERT_KINDS)) if rng.random() < 0.6] or ["GET_SCHEME"]
    use = {n: rng.random() < p for n, p in
           [("piece", 0.5), ("held", 0.5), ("public", 0.5), ("derive", 0.45), ("layout", 0.8),
            ("repeat", 0.4), ("array", 0.5), ("cli", 0.3), ("api", 0.6)]}
    p_pert = rng.choice([0.0, 0.15, 0.3, 0.5])
    lo, hi = cfg["per_life"]
    candidates = [p for p in pool if not p["large"]]
    larges = [p for p in pool if p["large"]]
    n_models = rng.randrange(lo, hi + 1)
    models = rng.sample(candidates, min(n_models, len(candidates)))
    # a model and its edited sibling in the same life, in either order
    for m in list(models):
        fam = m.get("siblings") or ([m["sibling_of"]] if m.get("sibling_of") else [])
        if fam and rng.random() < 0.6:
            other = rng.choice(fam)
            if other not in models:
                k_ins = models.index(m) + rng.choice([0, 1])
                models.insert(k_ins, other)
    if larges and rng.random() < 0.06:
        models = [rng.choice(larges)] + models[:1]
    seqs = []
    texts = {}
    for mi, m in enumerate(models):
        h = "h%d" % mi
        texts[m["id"]] = m["text"]
        seq = [{"op": "LOAD", "h": h, "m": m["id"], "via": rng.choice(["string", "file", "file"])}]
        body = []
        for o in rng.sample(m["optsets"], rng.randrange(1, len(m["optsets"]) + 1)):
            body.append({"op": "GEN", "h": h, "opts": o})
        if use["layout"]:
            body.append({"op": "LAYOUT", "h": h})
        if use["piece"] and not m["large"]:
            for pc in rng.sample(m["pieces"], rng.randrange(1, len(m["pieces"]) + 1)):
                body.append(dict(pc, op="PIECE", h=h))
        if use["held"]:
            slot = "s%d" % mi
            # the HOLD goes first in this model's sequence so that other models' ops
            # (and perturbations) can fall between HOLD and USE_HELD
            seq.append({"op": "HOLD", "slot": slot, "alias": m["held_alias"]})
            body.append({"op": "USE_HELD", "h": h, "slot": slot, "backend": rng.choice(["numpy", "c"])})
        if use["public"]:
            body.append({"op": "USE_PUBLIC", "h": h, "fn": m["public_fn"], "backend": "numpy"})
        if use["derive"] and not m["large"]:
            how = rng.choice(["comp", "minus", "reload", "reload", "comp", "minus", "reload", "comp", "minus", "reload", "simplify", "nosing"])
            h2 = "%sd" % h
            body.append({"op": "DERIVE", "h": h, "new": h2, "how": how, "ci": m["comp_ci"]})
            body.append({"op": "GEN", "h": h2, "opts": m["optsets"][0]})
            if len(m["optsets"]) > 1 and rng.random() < 0.5:
                body.append({"op": "GEN", "h": h2, "opts": m["optsets"][1]})
            body.append({"op": "LAYOUT", "h": h2})
        api_first = None
        if use["api"]:
            calls = rng.sample(m["api_calls"], rng.randrange(1, len(m["api_calls"]) + 1))
            for w in calls:
                body.append({"op": "API", "h": h, "what": w})
            if rng.random() < 0.5:
                # a direct API call as the very first thing that touches the fresh object
                api_first = {"op": "API", "h": h, "what": calls[0]}
        if use["cli"] and not m["large"]:
            body.append({"op": "CLI_GEN", "m": m["id"], "args": m["cli_args"]})
        if use["array"] and not m["large"]:
            if phase == 0 and rng.random() < 0.5:
                fid = "arr_%s_%d" % (m["sha"], k)
                body.append({"op": "SAVE_ARRAY", "h": h, "file": fid})
                array_jobs.append((m["id"], fid))
        rng.shuffle(body)
        # keep DERIVE before the ops on the derived handle
        body = _fix_derive_order(body)
        if use["repeat"] and body:
            rep = rng.choice([b for b in body if b["op"] in ("GEN", "LAYOUT", "PIECE")] or body)
            if rep["op"] not in ("DERIVE", "SAVE_ARRAY"):
                body.append(dict(rep))
        if api_first is not None:
            body = [api_first] + [b for b in body if not (b["op"] == "API" and b["what"] == api_first["what"])]
        seqs.append(seq + body)
    if phase == 1 and array_jobs and use["array"]:
        # name arrays another life saved: needs the same model loaded here, from a file
        for (mid, fid) in rng.sample(array_jobs, min(2, len(array_jobs))):
            m = next(p for p in pool if p["id"] == mid)
            texts[mid] = m["text"]
            h = "ha%d" % len(seqs)
            seqs.append([{"op": "LOAD", "h": h, "m": mid, "via": "file"},
                         {"op": "NAME_ARRAY", "h": h, "file": fid}])
    ops = merge_preserving(rng, seqs)
    # perturbations at random positions (never observations)
    out = []
    for op in ops:
        while rng.random() < p_pert:
            pt = perturbation(rng, pool, enabled)
            if pt.get("m"):
                texts[pt["m"]] = next(p for p in pool if p["id"] == pt["m"])["text"]
            out.append(pt)
        out.append(op)
    return {"life": k, "hash_key": hk, "sympy_seed": rng.randrange(0, 2 ** 31), "phase": phase, "texts": texts, "ops": out,
            "op_timeout": 180}


def _fix_derive_order(body: list) -> list:
    derived = {}
    for b in body:
        if b["op"] == "DERIVE":
            derived[b["new"]] = b
    if not derived:
        return body
    out = []
    placed = set()
    for b in body:
        if b["op"] == "DERIVE":
            if b["new"] not in placed:
                out.append(b)
                placed.add(b["new"])
            continue
        if b.get("h") in derived and b["h"] not in placed:
            out.append(derived[b["h"]])
            placed.add(b["h"])
        out.append(b)
    return out


def build_plans(seed: int, tier: str) -> tuple[list, list]:
    cfg = TIERS[tier]
    rng = random.Random(seed)
    pool = build_pool(rng, cfg)
    decorate_pool(rng, pool, cfg)
    n = cfg["lives"]
    array_jobs: list = []
    plans = []
    n0 = n // 2
    for k in range(n):
        phase = 0 if k < n0 else 1
        plans.append(build_life(rng, k, pool, cfg, phase, array_jobs))
    return pool, plans


# ------------------------------------------------------------------------ oracle


def group_observations(results: list) -> dict:
    """key -> list of observation dicts, in (life, op index) order."""
    groups: dict = {}
    for r in results:
        taint = r.get("tainted_from")
        for ev in r["events"]:
            if taint is not None and ev["i"] >= taint:
                break  # from the first op timeout on, a life is not judged (load-dependent)
            if "key" in ev and "digest" in ev and ev["status"] != "timeout" and not ev.get("skip"):
                groups.setdefault(ev["key"], []).append(
                    {"life": r["life"], "hash_key": r["hash_key"], "i": ev["i"], "digest": ev["digest"],
                     "judged": ev.get("judged", True), "op": ev["op"], "status": ev["status"],
                     "layout": ev.get("layout"), "layout_api": ev.get("layout_api"),
                     "first_line": ev.get("first_line"), "named": ev.get("named")})
            if "probe" in ev:
                groups.setdefault(ev["probe"]["key"], []).append(
                    {"life": r["life"], "hash_key": r["hash_key"], "i": ev["i"], "digest": ev["probe"]["digest"],
                     "judged": False, "op": "SAVE", "status": ev["status"]})
    return groups


UNJUDGED_KEYS: list = []  # probe keys (simplify / remove_singularities / save bytes) that diverged: reported, never judged


def find_violations(groups: dict) -> tuple[list, int]:
    """Keys with more than one digest.  Returns (judged violations, unjudged divergences)."""
    viols = []
    unjudged = 0
    for key in sorted(groups):
        obs_list = groups[key]
        digests = sorted({o["digest"] for o in obs_list})
        if len(digests) <= 1:
            continue
        if not all(o["judged"] for o in obs_list):
            unjudged += 1
            UNJUDGED_KEYS.append({"key": key[:160], "digests": len(digests),
                                  "hash_keys": sorted({o["hash_key"] for o in obs_list})[:4]})
            continue
        by_digest = {}
        for o in obs_list:
            by_digest.setdefault(o["digest"], o)  # first (life, i) per digest
        wit = [by_digest[d] for d in digests][:2]
        viols.append({"key": key, "op_kind": key.split("|", 1)[0], "model": key.split("|")[1],
                      "digests": digests, "witnesses": wit, "n_obs": len(obs_list)})
    return viols, unjudged


def _names_by_slot(pairs) -> list | None:
    """[[name, idx], ...] -> names ordered by slot; None unless slots are exactly 0..n-1."""
    pairs = sorted(pairs, key=lambda p: p[1])
    if [i for _, i in pairs] != list(range(len(pairs))):
        return None
    return [n for n, _ in pairs]


def layout_crosscheck(results: list) -> list:
    """Slot identity inside one life: the index maps read back from the emitted text
    must equal the API layout (`LAYOUT`) the same interpreter reports for that model."""
    bad = []
    for r in results:
        if r.get("timed_out"):
            continue
        api = {}
        for ev in r["events"]:
            if ev["op"] == "LAYOUT" and ev.get("layout_api") and ev.get("judged", True):
                api[ev["key"].split("|", 1)[1]] = ev["layout_api"]
        for ev in r["events"]:
            if ev["op"] != "GEN" or ev["status"] != "ok" or not ev.get("judged", True):
                continue
            mkey = ev["key"].split("|")[1]
            lay = ev.get("layout")
            if mkey not in api or not lay or lay.get("_unparsable"):
                continue
            want = api[mkey]
            wrong = None
            for kind in ("state", "parameter", "monitor"):
                if kind not in lay:
                    wrong = "no %s index map in emitted text" % kind
                    break
                if _names_by_slot(lay[kind]) != want[kind]:
                    wrong = "%s slots in emitted text differ from the API layout" % kind
                    break
            if wrong:
                bad.append({"key": ev["key"], "life": r["life"], "i": ev["i"], "why": wrong})
                break
    return bad


# ----------------------------------------------------------- attribution / ddmin


def needed_ops(ops: list, idx: int) -> list:
    """Indices of the ops the observation at `idx` depends on (handle / slot closure)."""
    need = []
    op = ops[idx]
    want_h = {op.get("h")} if op.get("h") else set()
    want_s = {op.get("slot")} if op["op"] == "USE_HELD" else set()
    for j in range(idx - 1, -1, -1):
        o = ops[j]
        if o["op"] == "LOAD" and o["h"] in want_h:
            need.append(j)
            want_h.discard(o["h"])
        elif o["op"] == "DERIVE" and o["new"] in want_h:
            need.append(j)
            want_h.discard(o["new"])
            want_h.add(o["h"])
        elif o["op"] == "HOLD" and o["slot"] in want_s:
            need.append(j)
            want_s.discard(o["slot"])
    return sorted(need)


def sub_life(plan: dict, keep: list, life_no: int, hash_key=None) -> dict:
    ops = [plan["ops"][j] for j in keep]
    used = {o["m"] for o in ops if o.get("m")}
    return {"life": life_no, "hash_key": plan["hash_key"] if hash_key is None else hash_key,
            "sympy_seed": plan.get("sympy_seed", 0),
            "phase": plan.get("phase", 0), "texts": {k: v for k, v in plan["texts"].items() if k in used}, "ops": ops,
            "op_timeout": plan.get("op_timeout", 180)}


def digest_of(result: dict, key: str):
    """Digest of the LAST observation of `key` in a life result (None if absent)."""
    d = None
    for ev in result["events"]:
        if ev.get("key") == key and "digest" in ev:
            d = ev["digest"]
    return d


class Minimiser:
    def __init__(self, root: Path, workers: int, budget: float, max_trials: int):
        self.root = root
        self.workers = workers
        self.budget = budget
        self.trials = 0
        self.max_trials = max_trials
        self.per_class = max(30, max_trials // 4)
        self.class_start = 0
        self.frozen = False
        self.n = 0

    def run(self, plans: list) -> list:
        self.n += 1
        self.trials += len(plans)
        return core.run_phased(plans, self.root / ("min%04d" % self.n), self.workers, self.budget)

    def exhausted(self) -> bool:
        """True when no more *minimisation* trials should be spent (attribution runs are
        never skipped: a violation must always be classified before it is reported)."""
        return self.frozen or self.trials >= self.max_trials or self.trials - self.class_start >= self.per_class

    def new_class(self):
        self.class_start = self.trials


def alt_sympy_seeds(seed: int, k: int) -> list:
    return [(seed * 7919 + (j + 1) * 104729 + 1) % (2 ** 31) for j in range(k)]


def rng_sensitive(base: dict, key: str, mini: "Minimiser", k: int = 6):
    """Run `base` (a life) twice under its own sympy seed and under k other sympy seeds -
    same hash key, same history.  Returns
      ("rng", [x, y])       two lives that differ ONLY in the sympy seed disagree on `key`
                            while the two same-seed runs agree;
      ("unstable", [x, y])  two runs of the IDENTICAL life disagree (something else varies
                            from run to run: a path, a clock, an address) - never attributed
                            to sympy;
      (None, None)          stable."""
    lives = [dict(base, life=0), dict(base, life=1)] + [dict(base, life=j + 2, sympy_seed=sd)
                                                         for j, sd in enumerate(alt_sympy_seeds(base.get("sympy_seed", 0), k))]
    res = mini.run(lives)
    ds = [digest_of(r, key) for r in res]
    if ds[0] is not None and ds[1] is not None and ds[0] != ds[1]:
        return "unstable", [dict(lives[0], life=0), dict(lives[1], life=1)]
    for j in range(2, len(lives)):
        if ds[0] is not None and ds[j] is not None and ds[j] != ds[0]:
            return "rng", [dict(lives[0], life=0), dict(lives[j], life=1)]
    return None, None


def attribute_and_minimise(v: dict, plans_by_life: dict, mini: Minimiser) -> dict:
    """Classify a violation (sympy-rng / hash-key / history) and shrink it to a small replay."""
    key = v["key"]
    wa, wb = v["witnesses"]
    pa, pb = plans_by_life[wa["life"]], plans_by_life[wb["life"]]
    doc = {"property": "C09", "key": key, "op_kind": v["op_kind"], "model": v["model"]}
    if v["op_kind"] == "ARRAY":
        return _attribute_array(v, plans_by_life, mini, doc)
    fa = sub_life(pa, needed_ops(pa["ops"], wa["i"]) + [wa["i"]], 0)
    fb = sub_life(pb, needed_ops(pb["ops"], wb["i"]) + [wb["i"]], 1)
    # 1. does the outcome depend on sympy's own RNG (same hash key, same history, other
    #    sympy seed)?  First on the short fresh lives (cheap) ...
    for base in (fa, fb):
        sens, pair = rng_sensitive(base, key, mini)
        if sens:
            doc["kind"] = "sympy-rng" if sens == "rng" else "rerun-differs"
            doc["lives"] = pair
            return doc
    # 2. hash key: both fresh families (8 runs each under different sympy seeds) were
    #    internally constant; the verdict is hash-key only if, in addition, the life under
    #    hash key b and sympy seed a agrees with its own family and the two constants differ
    fb_same = dict(fb, sympy_seed=fa["sympy_seed"])
    ra, rb, rb0 = mini.run([fa, fb_same, fb])
    da, db, db0 = digest_of(ra, key), digest_of(rb, key), digest_of(rb0, key)
    if db is not None and db0 is not None and db != db0:
        doc["kind"] = "sympy-rng"  # same hash key, same history, only the sympy seed differs
        doc["lives"] = [dict(fb, life=0), dict(fb_same, life=1)]
        return doc
    fb = fb_same
    if da is not None and db is not None and da != db:
        doc["kind"] = "hash-key"
        lives = [fa, fb]
        lives, key2 = minimise_opts(lives, key, mini)
        lives, key2 = minimise_text(lives, key2, mini)
        doc["lives"] = lives
        doc["minimised_key"] = key2
        return doc
    #    ... then on the full histories (fewer alternative seeds: these lives are long)
    for base in (sub_life(pa, list(range(wa["i"] + 1)), 0), sub_life(pb, list(range(wb["i"] + 1)), 0)):
        sens, pair = rng_sensitive(base, key, mini, k=3)
        if sens:
            doc["kind"] = "sympy-rng" if sens == "rng" else "rerun-differs"
            doc["lives"] = pair
            return doc
    # 3. history: some life disagrees with its own fresh run under the same hash key and
    #    the same sympy seed
    for (w, p) in ((wa, pa), (wb, pb)):
        fresh = sub_life(p, needed_ops(p["ops"], w["i"]) + [w["i"]], 0)
        fresh_d = digest_of(mini.run([fresh])[0], key)
        if fresh_d is not None and w["digest"] != fresh_d:
            need = needed_ops(p["ops"], w["i"])
            prefix = [j for j in range(w["i"]) if j not in need]
            keep = ddmin_ops(p, prefix, need, w["i"], key, fresh_d, mini)
            hist = sub_life(p, sorted(keep + need) + [w["i"]], 1)
            # the shortened history must not have turned into an RNG effect
            sens, pair = rng_sensitive(hist, key, mini)
            if sens:
                doc["kind"] = "sympy-rng" if sens == "rng" else "rerun-differs"
                doc["lives"] = pair
                return doc
            doc["kind"] = "history"
            doc["lives"] = [fresh, hist]
            return doc
    # nothing smaller reproduces: keep the two complete lives (still an exact replay)
    doc["kind"] = "unattributed"
    doc["lives"] = [dict(pa, life=0), dict(pb, life=1)]
    return doc


def _attribute_array(v: dict, plans_by_life: dict, mini: Minimiser, doc: dict) -> dict:
    """Saved-array scenario: the replay needs the saving life (phase 0) plus the
    naming lives (phase 1) that disagree about which name a stored slot has."""
    key = v["key"]
    fid = key.split("|")[2]
    lives = []
    for ln in sorted(plans_by_life):
        p = plans_by_life[ln]
        for j, o in enumerate(p["ops"]):
            if o["op"] == "SAVE_ARRAY" and o.get("file") == fid:
                lives.append(dict(sub_life(p, needed_ops(p["ops"], j) + [j], len(lives)), phase=0))
    for w in v["witnesses"]:
        p = plans_by_life[w["life"]]
        if p["ops"][w["i"]]["op"] == "NAME_ARRAY":
            lives.append(dict(sub_life(p, needed_ops(p["ops"], w["i"]) + [w["i"]], len(lives)), phase=1))
    res = mini.run(lives)
    ds = {digest_of(r, key) for r in res} - {None, "skip"}
    doc["kind"] = "hash-key" if len(ds) >= 2 else "unattributed"
    if len(ds) < 2:
        lives = [dict(plans_by_life[ln]) for ln in sorted({w["life"] for w in v["witnesses"]} |
                 {ln for ln in plans_by_life for o in plans_by_life[ln]["ops"]
                  if o["op"] == "SAVE_ARRAY" and o.get("file") == fid})]
    doc["lives"] = lives
    return doc


def ddmin_ops(plan: dict, removable: list, need: list, idx: int, key: str, fresh_digest: str,
              mini: Minimiser) -> list:
    """Smallest subset of `removable` prefix ops that still makes the observation at
    `idx` differ from the fresh digest (classic ddmin, candidates run in parallel)."""
    cur = list(removable)
    n = min(8, max(2, len(cur)))
    while len(cur) >= 1 and not mini.exhausted():
        chunk = max(1, len(cur) // n)
        subsets = [cur[i:i + chunk] for i in range(0, len(cur), chunk)]
        cands = []
        for s in subsets:
            comp = [x for x in cur if x not in s]
            cands.append(comp)
        lives = [sub_life(plan, sorted(c + need) + [idx], i) for i, c in enumerate(cands)]
        res = mini.run(lives)
        hit = None
        for c, r in zip(cands, res):
            d = digest_of(r, key)
            if d is not None and d != fresh_digest:
                hit = c
                break
        if hit is not None:
            cur = hit
            n = max(n - 1, 2)
            if not cur:
                break
        elif chunk == 1:
            break
        else:
            n = min(len(cur), n * 2)
    return cur


def minimise_opts(lives: list, key: str, mini: Minimiser):
    """Reset GEN options to defaults (all at once, then one by one) while the two
    lives still disagree."""
    a, b = lives
    op = a["ops"][-1]
    if op["op"] != "GEN" or not op.get("opts") or b["ops"][-1].get("opts") != op["opts"]:
        return lives, key
    opts = dict(op["opts"])
    trials = [{}] + [{k: v for k, v in opts.items() if k != drop} for drop in sorted(opts)]
    while trials and not mini.exhausted():
        cand = trials.pop(0)
        if cand == opts:
            continue
        parts = key.split("|")
        k2 = "|".join(parts[:2] + [obs.canon(cand)])
        la = dict(a, ops=a["ops"][:-1] + [dict(op, opts=cand)])
        lb = dict(b, ops=b["ops"][:-1] + [dict(b["ops"][-1], opts=cand)])
        ra, rb = mini.run([la, lb])
        d1, d2 = digest_of(ra, k2), digest_of(rb, k2)
        if d1 and d2 and d1 != d2 and not d1.startswith("exc:") and not d2.startswith("exc:"):
            a, b, opts, key, op = la, lb, cand, k2, la["ops"][-1]
            if not cand:
                break
            trials = [{k: v for k, v in opts.items() if k != drop} for drop in sorted(opts)]
    return [a, b], key


def minimise_text(lives: list, key: str, mini: Minimiser):
    """Line-based ddmin of the model text while the two lives still disagree.
    A candidate that no longer loads (or no longer disagrees) is rejected."""
    a, b = lives
    load_ops = [o for o in a["ops"] if o["op"] == "LOAD"]
    if len(load_ops) != 1:
        return lives, key
    mid = load_ops[0]["m"]
    text = a["texts"][mid]
    lines = text.split("\n")
    obs_op = a["ops"][-1]

    def make(text2: str, n: int):
        la = dict(a, texts={mid: text2}, life=2 * n)
        lb = dict(b, texts={mid: text2}, life=2 * n + 1)
        return la, lb

    def key_for(text2: str) -> str:
        # the key embeds the sha of the text: recompute for the candidate
        parts = key.split("|")
        old = parts[1]
        new_sha = obs.sha(text2)[:16]
        parts[1] = new_sha + old[16:]
        return "|".join(parts)

    cur = lines
    n = min(8, max(2, len(cur)))
    while len(cur) > 1 and not mini.exhausted():
        chunk = max(1, len(cur) // n)
        cands = []
        for i in range(0, len(cur), chunk):
            cands.append(cur[:i] + cur[i + chunk:])
        cands = [c for c in cands if c]
        batch = []
        for ci, c in enumerate(cands):
            la, lb = make("\n".join(c), ci)
            batch += [la, lb]
        res = mini.run(batch)
        hit = None
        for ci, c in enumerate(cands):
            k2 = key_for("\n".join(c))
            d1, d2 = digest_of(res[2 * ci], k2), digest_of(res[2 * ci + 1], k2)
            if d1 and d2 and d1 != d2 and not d1.startswith("exc:") and not d2.startswith("exc:"):
                hit = c
                break
        if hit is not None:
            cur = hit
            n = max(n - 1, 2)
        elif chunk == 1:
            break
        else:
            n = min(len(cur), n * 2)
    text2 = "\n".join(cur)
    la, lb = make(text2, 0)
    la["life"], lb["life"] = 0, 1
    return [la, lb], key_for(text2)


# ------------------------------------------------------------------------ replay


def replay(path: str, workers: int = 4) -> int:
    doc = json.loads(Path(path).read_text())
    root = core.scratch_root("c09r")
    res = core.run_phased(doc["lives"], root, workers, 900)
    groups = group_observations(res)
    viols, _ = find_violations(groups)
    lay_bad = layout_crosscheck(res)
    if viols or lay_bad:
        for b in lay_bad:
            print("REPLAY reproduced: layout-mismatch key=%s: %s" % (b["key"], b["why"]))
        for v in viols:
            print("REPLAY reproduced: key=%s digests=%s" % (v["key"], ",".join(d[:12] for d in v["digests"])))
        print("VIOLATION property=C09 replay=%s" % path)
        return core.EXIT_VIOLATION
    print("REPLAY not reproduced (all keys have a single digest): %s" % path)
    return core.EXIT_OK


# -------------------------------------------------------------------------- main


def summarise(pool, plans, results, groups, viols, unjudged, tier, seed, wall, extra) -> dict:
    n_ops = sum(len(r["events"]) for r in results)
    per_kind: dict = {}
    for r in results:
        for ev in r["events"]:
            per_kind[ev["op"]] = per_kind.get(ev["op"], 0) + 1
    # tie-break diversity: distinct iteration-order signatures per model
    sigs: dict = {}
    depth_first: dict = {}
    for r in results:
        seen_pert = False
        for ev in r["events"]:
            if ev["op"] == "LOAD" and ev.get("mkey") and ev.get("sig"):
                sigs.setdefault(ev["mkey"], set()).add(ev["sig"])
    keys_lives: dict = {}
    for key in sorted(groups):
        ol = groups[key]
        keys_lives[key] = ol
    nontrivial = 0
    for key in sorted(groups):
        ol = groups[key]
        if not all(o["judged"] for o in ol):
            continue
        mk = key.split("|")[1][:16]
        hks = {o["hash_key"] for o in ol}
        depths = {o["i"] for o in ol}
        if (len(hks) >= 2 and len(sigs.get(mk, ())) >= 2) or (len(depths) >= 2 and min(depths) <= 1 and max(depths) >= 3):
            nontrivial += 1
    probes = {
        "piecewise_present": sum(1 for r in results for ev in r["events"] if ev.get("piecewise")),
        "multi_component_split": sum(1 for r in results for ev in r["events"] if ev.get("multi")),
        "missing_variables_present": sum(1 for r in results for ev in r["events"] if ev.get("nmissing", 0) > 0),
        "remove_unused_dropped_something": sum(1 for r in results for ev in r["events"] if ev.get("ru_dropped", 0) > 0),
        "held_scheme_used": per_kind.get("USE_HELD", 0),
        "public_scheme_used": per_kind.get("USE_PUBLIC", 0),
        "saved_array_crossed_restart": sum(1 for r in results for ev in r["events"] if ev.get("crossed_restart")),
        "sut_exceptions_observed": sum(1 for r in results for ev in r["events"] if ev["status"].startswith("exc:")),
        "lives_with_op_timeout": sum(1 for r in results if r.get("timed_out")),
    }
    blind = sorted(k for k, v in probes.items() if v == 0 and k not in ("sut_exceptions_observed", "lives_with_op_timeout"))
    sample_life = plans[0]
    samples = [{
        "life": sample_life["life"], "hash_key": sample_life["hash_key"],
        "ops": [{k: v for k, v in o.items()} for o in sample_life["ops"][:12]],
    }]
    k0 = next((k for k in sorted(groups) if k.startswith("GEN|") and len(groups[k]) >= 3), None)
    if k0:
        samples.append({"key": k0, "observations": [{"life": o["life"], "hash_key": o["hash_key"], "op_index": o["i"],
                                                       "digest": o["digest"][:16]} for o in groups[k0][:6]]})
    lives_per_hour = len(results) / wall * 3600 if wall > 0 else 0
    cov = {
        "evaluations": sum(len(v) for v in groups.values()),
        "distinct_nontrivial": nontrivial,
        "rule": ("evaluations = observations (op results with a key) over all lives; a key = (sha of model text, "
                 "derivation path, canonical options, op kind). A key counts as distinct_nontrivial iff it is judged and "
                 "was observed (a) under >=2 hash keys in lives whose iteration-order signature of that model's sets "
                 "really differed, or (b) both as one of the first two ops of a life and at history depth >=3."),
        "samples": samples,
        "lives": len(results),
        "distinct_hash_keys": len({r["hash_key"] for r in results}),
        "ops_executed": n_ops,
        "ops_per_kind": dict(sorted(per_kind.items())),
        "observation_keys": len(groups),
        "models_in_pool": len(pool),
        "models_by_source": _count([p["src"].split(":")[0] for p in pool]),
        "distinct_iteration_signatures_total": sum(len(s) for s in sigs.values()),
        "models_with_ge2_signatures": sum(1 for s in sigs.values() if len(s) >= 2),
        "probes": probes,
        "workload_blind_spots": blind,
        "unjudged_divergences": unjudged,
        "unjudged_divergent_keys": UNJUDGED_KEYS[:10],
        "canonical_event_log_sha256": core.canonical_log(results),
        "lives_per_hour": round(lives_per_hour),
        "ops_per_hour": round(n_ops / wall * 3600) if wall > 0 else 0,
        "simulated_time": "not applicable: nothing in gotranx reads a clock; progress is measured in operations",
        "fault_kinds_injected": {"hash_key_change_between_lives": len({r["hash_key"] for r in results}),
                                 "process_restart": len(results),
                                 "history_perturbation_ops": sum(per_kind.get(k, 0) for k in
                                                                 ("GET_SCHEME", "CLI_INPROC", "MYOKIT", "CLEAR_CACHE", "GC"))},
        "real_vs_stub": {"real": ["gotranx (from /repo working tree)", "sympy", "lark", "pint", "black", "myokit", "CPython set/dict with the life's hash key"],
                         "stub": []},
        "repo": core.repo_state(),
    }
    slow = sorted(((ev.get("ms", 0), ev["op"], r["life"]) for r in results for ev in r["events"]), reverse=True)[:5]
    cov["slowest_ops_ms"] = [list(x) for x in slow]
    cov["life_wall_s_max"] = round(max(r.get("wall_s", 0) for r in results), 1)
    cov.update(extra)
    return cov


def _count(xs: list) -> dict:
    d: dict = {}
    for x in xs:
        d[x] = d.get(x, 0) + 1
    return dict(sorted(d.items()))


def main(tier: str, workers: int = 16) -> int:
    t0 = time.time()
    seed = core.get_seed()
    print("C09 tier=%s VERIF_SEED=%d" % (tier, seed))
    cfg = TIERS[tier]
    pool, plans = build_plans(seed, tier)
    root = core.scratch_root("c09")
    try:
        results = core.run_phased(plans, root, workers, cfg["budget"])
    except core.HarnessError as e:
        print("HARNESS-ERROR %s" % e)
        return core.EXIT_HARNESS
    groups = group_observations(results)
    viols, unjudged = find_violations(groups)
    lay_bad = layout_crosscheck(results)
    findings, _fixed = core.load_known("C09")
    plans_by_life = {p["life"]: p for p in plans}
    mini = Minimiser(root, workers, cfg["budget"], cfg["ddmin_trials"])
    reported = []
    known_hits = []
    # group violations by (op kind, model): minimise one representative per class
    classes: dict = {}
    for v in viols:
        classes.setdefault((v["op_kind"], v["model"][:16]), []).append(v)
    n_new = 0
    # minimise one class per op kind first, then the rest while the budget lasts
    order, seen_kinds = [], set()
    for ck in sorted(classes):
        if ck[0] not in seen_kinds:
            seen_kinds.add(ck[0])
            order.append(ck)
    order += [ck for ck in sorted(classes) if ck not in order]
    model_kind: dict = {}  # model sha -> kind of the first class attributed for that model
    n_real = 0           # classes that turned out NOT to be the known sympy-rng effect
    for n_ck, ck in enumerate(order):
        v = classes[ck][0]
        mini.new_class()
        try:
            mini.frozen = mini.trials >= mini.max_trials or n_real >= cfg.get("max_min_classes", 3)
            mk = ck[1]
            if model_kind.get(mk) not in (None, "sympy-rng") or n_real >= cfg.get("max_attr_classes", 12):
                # this model already has an attributed real violation (or the tree shows far
                # more real violations than we need to explain): report as it is - the two
                # complete witness lives are an exact replay
                doc = {"property": "C09", "key": v["key"], "op_kind": v["op_kind"], "model": v["model"], "kind": "unclassified",
                       "lives": [dict(plans_by_life[w["life"]]) for w in v["witnesses"]]}
            else:
                doc = attribute_and_minimise(v, plans_by_life, mini)
                model_kind.setdefault(mk, doc["kind"])
            if doc["kind"] != "sympy-rng":
                n_real += 1
        except core.HarnessError as e:
            print("HARNESS-ERROR during minimisation: %s" % e)
            return core.EXIT_HARNESS
        doc["seed"] = seed
        doc["tier"] = tier
        doc["digests"] = v["digests"]
        doc["keys_in_class"] = len(classes[ck])
        vio = {"kind": doc["kind"], "op_kind": v["op_kind"], "model": v["model"][:16], "key": v["key"]}
        kf = core.match_known(vio, findings)
        if kf:
            known_hits.append((kf, v))
            print("KNOWN-FINDING: property=C09 %s (key %s)" % (kf.get("what", kf.get("id")), v["key"][:80]))
            continue
        name = "C09_%s_%s_%s.json" % (doc["kind"], v["op_kind"], obs.sha(v["key"])[:10])
        path = core.write_replay("C09", name, doc)
        reported.append(str(path))
        n_new += 1
        print("violation: kind=%s op=%s model=%s digests=%d (of %d keys in this class)" %
              (doc["kind"], v["op_kind"], v["model"][:16], len(v["digests"]), len(classes[ck])))
        print("VIOLATION property=C09 replay=%s" % path)
    for b in lay_bad:
        n_new += 1
        name = "C09_layout_%s.json" % obs.sha(b["key"])[:10]
        pl = plans_by_life[b["life"]]
        keep = sorted(set(needed_ops(pl["ops"], b["i"]) + [b["i"]] +
                          [j for j, o in enumerate(pl["ops"]) if o["op"] == "LAYOUT" and o.get("h") == pl["ops"][b["i"]].get("h")]))
        path = core.write_replay("C09", name, {"property": "C09", "kind": "layout-mismatch", "key": b["key"], "why": b["why"],
                                                 "lives": [sub_life(pl, keep, 0)], "seed": seed})
        print("violation: kind=layout-mismatch %s" % b["why"])
        print("VIOLATION property=C09 replay=%s" % path)
    wall = time.time() - t0
    cov = summarise(pool, plans, results, groups, viols, unjudged, tier, seed, wall,
                    {"violating_keys": len(viols), "violation_classes": len(classes),
                     "known_findings_hit": len(known_hits), "replays_written": reported,
                     "minimiser_trials": mini.trials})
    core.write_evidence(
        "C09", "quick" if tier != "thorough" else "thorough", seed, cov, wall, n_new,
        ["PYTHONHASHSEED=h makes str.__hash__ a pure function of (h, string); set iteration orders reached are those some real key produces, not all permutations",
         "model texts come from a seeded grammar-aware generator plus the shipped .ode files; programs and hash keys are sampled, not enumerated",
         "digests of exceptions compare the exception type only, never the message",
         "code generated after ode.simplify()/remove_singularities() and the bytes save() writes are probes (unjudged)"],
    )
    print("C09 %s: lives=%d ops=%d keys=%d nontrivial=%d violations=%d known=%d unjudged_div=%d wall=%.1fs" %
          (tier, len(results), cov["ops_executed"], len(groups), cov["distinct_nontrivial"], n_new, len(known_hits), unjudged, wall))
    return core.EXIT_VIOLATION if n_new else core.EXIT_OK
