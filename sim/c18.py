"""C18 driver: the command line writes what the API generates and honours its options,
under file-system, configuration and formatter-peer faults.  See DESIGN §4.

One VERIF_SEED -> one PRNG in the driver -> per worker: a Hypothesis seed, a hash key,
a formatter environment (stub on PATH or absent) and a fault configuration (fault-free
or fault-injecting).  Workers are separate processes; results are merged by worker
index.
"""

from __future__ import annotations

import json
import os
import random
import subprocess
import sys
import time
from concurrent.futures import ThreadPoolExecutor
from pathlib import Path

from . import core, modelgen, obs

TIERS = {
    "smoke": dict(workers=4, sessions=6, steps=6, n_models=4, budget=900, mirror_rate=16),
    "quick": dict(workers=16, sessions=40, steps=8, n_models=8, budget=1200, mirror_rate=32),
    "thorough": dict(workers=16, sessions=400, steps=9, n_models=12, budget=7200, mirror_rate=40),
}

SMALL = dict(n_comp=None, n_states=None)


def build_pool(rng: random.Random, n: int) -> list:
    pool = [modelgen.shipped_text("lorentz.ode"), modelgen.shipped_text("fitzhughnagumo.ode"), modelgen.UNICODE_MODEL]
    while len(pool) < n:
        kn = {"n_comp": rng.choice([1, 1, 2]), "n_states": rng.randrange(2, 5), "n_params": rng.randrange(1, 5),
              "n_inter": rng.choice([0, 2, 4, 6]), "max_fan": rng.choice([2, 3]), "p_func": rng.choice([0.0, 0.15]),
              "p_cond": rng.choice([0.0, 0.08]), "cond_depth": 1, "p_sing": 0.0, "layers": 2,
              "maxlen": rng.choice([3, 6])}
        pool.append(modelgen.gen_model(rng, kn))
    if n >= 8:
        pool.append(modelgen.shipped_text("beeler_reuter_1977.ode"))
    return pool


def worker_env(wroot: Path, stub: str, hash_key: int) -> dict:
    # three formatter environments: the deterministic stub peer first on PATH; no
    # clang-format at all (/venv/bin, which ships a real one, is left off PATH); the real one
    base = "/usr/local/bin:/usr/bin:/bin"
    if stub == "present":
        path = str(core.VERIF / "sim" / "stubs") + ":" + base
    elif stub == "real":
        path = "/venv/bin:" + base
    else:
        path = base
    env = core.life_env(wroot, hash_key, {"PATH": path, "VERIF_STUB_MODE": "ok"})
    return env


def build_plans(seed: int, tier: str) -> list:
    cfg = TIERS[tier]
    rng = random.Random(seed ^ 0xC18)
    pool = build_pool(rng, cfg["n_models"])
    plans = []
    for w in range(cfg["workers"]):
        plans.append({
            "worker": w,
            "hyp_seed": rng.randrange(1, 2 ** 31),
            "hash_key": rng.randrange(1, 2 ** 32),
            "sympy_seed": rng.randrange(0, 2 ** 31),
            "stub": ("present", "absent", "present", "real")[w % 4],
            "faults": (w // 4) % 2 == 1 or w % 4 == 2,
            "heavy": w % 8 == 6,
            "pool": pool,
            "sessions": cfg["sessions"],
            "steps": cfg["steps"],
            "mirror_rate": cfg["mirror_rate"],
        })
    return plans


def run_workers(plans: list, root: Path, budget: float, par: int) -> list:
    wpy = str(core.VERIF / "sim" / "c18_worker.py")

    def one(plan):
        wroot = root / ("w%03d" % plan["worker"])
        for sub in ("home", "tmp", "fs"):
            (wroot / sub).mkdir(parents=True, exist_ok=True)
        plan = dict(plan, scratch=str(wroot / "fs"), result=str(wroot / "result.json"))
        pfile = wroot / "plan.json"
        pfile.write_text(json.dumps(plan))
        try:
            cp = subprocess.run([core.PY, wpy, str(pfile)], env=worker_env(wroot, plan.get("stub", "absent"), plan["hash_key"]),
                                stdin=subprocess.DEVNULL, stdout=subprocess.DEVNULL, stderr=subprocess.PIPE,
                                timeout=budget, cwd=str(wroot))
        except subprocess.TimeoutExpired:
            return {"worker": plan["worker"], "harness_error": "wall budget %.0fs exceeded" % budget}
        rf = Path(plan["result"])
        if not rf.exists():
            return {"worker": plan["worker"], "harness_error": "worker exit %s without result: %s" %
                    (cp.returncode, cp.stderr.decode("utf-8", "replace")[-800:])}
        return json.loads(rf.read_text())

    with ThreadPoolExecutor(max_workers=par) as ex:
        results = list(ex.map(one, plans))
    for r in results:
        if "harness_error" in r:
            raise core.HarnessError("C18 worker %s: %s\n%s" % (r.get("worker"), r["harness_error"], r.get("trace", "")))
    return results


def violation_fields(v: dict) -> dict:
    vi = v["violation"]
    shape = [a for a in vi["argv"] if a.startswith("-")]
    return {"cmd": vi["cmd"], "why": vi["why"], "stub": vi.get("stub"), "fired": vi.get("fired"),
            "flags": " ".join(sorted(set(shape)))}


def run_replay_doc(doc: dict, root: Path) -> dict:
    plan = {"worker": 0, "mode": "replay", "doc": doc, "hash_key": doc.get("hash_key", 0), "stub": doc.get("stub"),
            "sympy_seed": doc.get("sympy_seed", 0)}
    res = run_workers([plan], root, 1800, 1)[0]
    return res


def replay(path: str) -> int:
    doc = json.loads(Path(path).read_text())
    root = core.scratch_root("c18r")
    res = run_replay_doc(doc, root)
    if res.get("violation"):
        print("REPLAY reproduced: %s :: %s" % (" ".join(res["violation"]["argv"]), res["violation"]["why"]))
        print("VIOLATION property=C18 replay=%s" % path)
        return core.EXIT_VIOLATION
    print("REPLAY not reproduced: %s (%d invocations ran)" % (path, len(res.get("events", []))))
    return core.EXIT_OK


def main(tier: str, workers: int = 16) -> int:
    t0 = time.time()
    seed = core.get_seed()
    cfg = TIERS[tier]
    print("C18 tier=%s VERIF_SEED=%d" % (tier, seed))
    plans = build_plans(seed, tier)
    root = core.scratch_root("c18")
    results = run_workers(plans, root, cfg["budget"], min(workers, len(plans)))
    findings, _fixed = core.load_known("C18")
    n_new = 0
    known_hits = 0
    replays = []
    seen_classes = set()
    for plan, r in zip(plans, results):
        v = r.get("violation")
        if not v:
            continue
        fields = violation_fields(v)
        doc = {"property": "C18", "seed": seed, "tier": tier, "worker": plan["worker"], "hyp_seed": plan["hyp_seed"],
               "hash_key": plan["hash_key"], "sympy_seed": plan["sympy_seed"], "stub": plan["stub"], "faults": plan["faults"], "pool": plan["pool"],
               "trace": v["trace"], "violation": v["violation"], "fields": fields}
        # exact replay in fresh real processes before anything is reported
        rr = run_replay_doc(doc, root / ("confirm%03d" % plan["worker"]))
        if not rr.get("violation"):
            raise core.HarnessError("C18 worker %d: minimised session does not reproduce in fresh processes: %s" %
                                    (plan["worker"], v["violation"]))
        fields = violation_fields({"violation": rr["violation"]})
        doc["fields"] = fields
        kf = core.match_known(fields, findings)
        if kf:
            known_hits += 1
            print("KNOWN-FINDING: property=C18 %s (%s)" % (kf.get("what", kf.get("id")), " ".join(rr["violation"]["argv"])))
            continue
        ck = (fields["cmd"], fields["why"])
        name = "C18_%s_%s.json" % (fields["cmd"], obs.sha(obs.canon([fields, v["trace"]]))[:10])
        path = core.write_replay("C18", name, doc)
        replays.append(str(path))
        n_new += 1
        print("violation: %s :: %s (trace of %d ops, %s)" % (" ".join(rr["violation"]["argv"]), fields["why"], len(v["trace"]),
                                                            "new class" if ck not in seen_classes else "same class as above"))
        seen_classes.add(ck)
        print("VIOLATION property=C18 replay=%s" % path)
    wall = time.time() - t0
    stats: dict = {}
    for r in results:
        for k, v in r["stats"].items():
            stats[k] = stats.get(k, 0) + v
    inv = stats.get("invoke", 0)
    fault_kinds = {k.split(":", 1)[1]: {"armed": stats.get("armed:" + k.split(":", 1)[1], 0), "fired": v}
                   for k, v in sorted(stats.items()) if k.startswith("fired:")}
    for k, v in sorted(stats.items()):
        if k.startswith("armed:") and k.split(":", 1)[1] not in fault_kinds:
            fault_kinds[k.split(":", 1)[1]] = {"armed": v, "fired": 0}
    state_faults = {k.split(":", 1)[1]: v for k, v in sorted(stats.items()) if k.startswith("damage:")}
    sigs = set()
    for r in results:
        sigs |= set(r.get("sigs", []))
    nontrivial = len(sigs)
    log_digest = obs.sha(obs.canon([[r["worker"], r["log_digest"]] for r in results]))
    cov = {
        "evaluations": inv,
        "distinct_nontrivial": nontrivial,
        "rule": ("evaluations = CLI invocations judged against the reference model. distinct_nontrivial = number of DISTINCT "
                 "signatures (sub-command, full option tuple, call fault that actually fired, formatter environment and stub "
                 "mode, outcome class, whether an output file pre-existed, cwd) among invocations whose reference was Success "
                 "with at least one non-default option or inside which a call fault fired (counted by the seam); "
                 "deduplicated across sessions and workers."),
        "samples": [s for r in results[:3] for s in r.get("samples", [])[:1]],
        "sessions": sum(r.get("n_sessions", 0) for r in results),
        "workers": [{"worker": p["worker"], "hyp_seed": p["hyp_seed"], "stub": p["stub"], "faults": p["faults"],
                     "hash_key": p["hash_key"]} for p in plans],
        "invocations_per_command": {k.split(":", 1)[1]: v for k, v in sorted(stats.items()) if k.startswith("cmd:")},
        "outcomes": {k.split(":", 1)[1]: v for k, v in sorted(stats.items()) if k.startswith("outcome:")},
        "reinvocations_with_one_option_changed": {k.split(":", 1)[1]: v for k, v in sorted(stats.items()) if k.startswith("reinvoke:")},
        "call_faults": fault_kinds,
        "state_faults_applied": state_faults,
        "probes": {k: stats.get(k, 0) for k in (
            "preexisting_output_overwritten", "preexisting_longer_output_overwritten", "failure_with_preexisting_output",
            "pipeline_after_cellml", "formatter_stub_applied", "formatter_missing_env", "ambiguous_expectation_sets",
            "real_process_mirrors", "fidelity_mismatch", "api_real_process_runs", "candidates", "config_overrode_cli_value", "config_applied_unambiguously", "real_process_cache_hits", "c_output_with_real_clang_format_env", "candidates_confirmed_in_real_process",
            "candidates_not_confirmed", "success_with_nondefault_option", "success_with_repeated_scheme_or_stiff_option",
            "success_with_space_or_non_ascii_model_name")},
        "canonical_event_log_sha256": log_digest,
        "invocations_per_hour": round(inv / wall * 3600) if wall > 0 else 0,
        "sessions_per_hour": round(sum(r.get("n_sessions", 0) for r in results) / wall * 3600) if wall > 0 else 0,
        "derived_hypothesis_seeds": [p["hyp_seed"] for p in plans],
        "formatter_environments": {k: sum(1 for p in plans if p["stub"] == k) for k in ("present", "absent", "real")},
        "fault_free_workers": sum(1 for p in plans if not p["faults"]),
        "fault_injecting_workers": sum(1 for p in plans if p["faults"]),
        "simulated_time": "not applicable: the CLI has no clock; progress is measured in invocations",
        "real_vs_stub": {"real": ["gotranx CLI and API (from /repo working tree)", "typer/click", "black (config discovery and formatter)",
                                  "myokit (CellML import)", "the file system of a scratch project directory"],
                         "stub": ["clang-format (sim/stubs/clang-format, deterministic, failure modes by VERIF_STUB_MODE)",
                                  "EIO/EACCES/ENOSPC/partial write/vanish-after-check/vanish-before-read through the open()-level seam (sim/fsseam.py)"]},
        "known_findings_hit": known_hits,
        "replays_written": replays,
        "repo": core.repo_state(),
    }
    blind = [k for k in ("preexisting_output_overwritten", "failure_with_preexisting_output", "formatter_stub_applied",
                         "real_process_mirrors", "success_with_nondefault_option") if cov["probes"][k] == 0]
    cov["workload_blind_spots"] = blind
    core.write_evidence(
        "C18", "quick" if tier != "thorough" else "thorough", seed, cov, wall, n_new,
        ["the reference is the library API called on the same bytes with the options the documentation says apply; the API itself is trusted (its correctness is C01-C08's subject)",
         "in-process invocations share an interpreter; every candidate violation is re-executed as a real process and only reported if it reproduces there; ~1/32 of clean invocations are mirrored as real processes",
         "config discovery is judged only where the documentation is unambiguous (explicit -c, or cwd with .git and pyproject.toml); elsewhere every resolution black could pick is accepted",
         "call faults are injected at open() level (builtins.open / io.open, which Path.read_text/write_text go through) plus Path.is_file for the vanish fault; read faults are keyed by the resolved target path, write faults apply to any file below the simulated project"],
        level="exploration",
    )
    print("C18 %s: workers=%d sessions=%d invocations=%d nontrivial=%d violations=%d known=%d mirrors=%d fidelity_mismatch=%d unconfirmed=%d wall=%.1fs" %
          (tier, len(plans), cov["sessions"], inv, nontrivial, n_new, known_hits, cov["probes"]["real_process_mirrors"],
           cov["probes"]["fidelity_mismatch"], cov["probes"]["candidates_not_confirmed"], wall))
    return core.EXIT_VIOLATION if n_new else core.EXIT_OK
