"""File-system seam: one-shot call faults that file *state* cannot express.

Installed in the process that runs the gotranx CLI (the C18 worker for in-process
invocations, `cli_launcher.py` for real-process ones).  A fault is armed for the next
invocation only, fires at most once and is counted when it actually fires.  The seam sits
at `open()` level (`builtins.open` / `io.open`, which `pathlib.Path.read_text`,
`write_text` and `open` all go through), so it does not matter *how* the code under test
reads or writes; `vanish` additionally hooks `Path.is_file`.  Kinds:

  read_eio / read_eacces   opening the target for reading raises OSError(EIO) / PermissionError
  vanish                   the target is unlinked at the instant of Path.is_file(target)
                           (TOCTOU between typer's existence check and load_ode)
  vanish_at_open           the target is unlinked at the instant it is opened for reading
                           (TOCTOU between is_file() and the read)
  write_enospc             opening <a file under the project> for writing raises ENOSPC
  write_partial            ... the first write() stores half of the data, then raises ENOSPC

Read faults are keyed by the resolved path of the target; write faults apply to any file
below the `under` directory (the simulated project), never to files elsewhere (formatter
temp files, the harness's own plan/report files).
"""

from __future__ import annotations

import builtins
import errno
import io
import os
import pathlib

_orig = {}
_state = {"fault": None, "fired": 0, "log": []}

READ_KINDS = ("read_eio", "read_eacces", "vanish_at_open")
WRITE_KINDS = ("write_enospc", "write_partial")


def _real(p) -> str:
    try:
        return os.path.realpath(os.fspath(p))
    except Exception:
        return str(p)


def _match(p, target) -> bool:
    if target is None:
        return True
    return _real(p) == target


def _under(p, root) -> bool:
    if not root:
        return False
    rp = _real(p)
    return rp == root or rp.startswith(root.rstrip("/") + "/")


class _PartialWriter:
    """File object whose first write stores half of the data and then fails with ENOSPC."""

    def __init__(self, fh, name):
        self._fh = fh
        self._name = name
        self._done = False

    def write(self, data):
        if not self._done:
            self._done = True
            self._fh.write(data[: len(data) // 2])
            self._fh.flush()
            raise OSError(errno.ENOSPC, "No space left on device (injected)", self._name)
        return self._fh.write(data)

    def __enter__(self):
        return self

    def __exit__(self, *exc):
        self._fh.close()
        return False

    def __getattr__(self, name):
        return getattr(self._fh, name)


def _fire(what: str, kind: str):
    _state["fired"] += 1
    _state["log"].append([what, kind])


def _open(file, mode="r", *a, **kw):
    f = _state["fault"]
    if f and not _state["fired"] and isinstance(file, (str, bytes, os.PathLike)):
        kind = f["kind"]
        writing = any(c in mode for c in "wax+")
        if not writing and kind in READ_KINDS and f.get("target") and _match(file, f["target"]):
            _fire("open-r", kind)
            if kind == "read_eio":
                raise OSError(errno.EIO, "Input/output error (injected)", os.fspath(file))
            if kind == "read_eacces":
                raise PermissionError(errno.EACCES, "Permission denied (injected)", os.fspath(file))
            try:
                os.unlink(os.fspath(file))  # vanish_at_open: gone between the check and the read
            except OSError:
                pass
        elif writing and kind in WRITE_KINDS and _under(file, f.get("under")):
            _fire("open-w", kind)
            if kind == "write_enospc":
                raise OSError(errno.ENOSPC, "No space left on device (injected)", os.fspath(file))
            return _PartialWriter(_orig["open"](file, mode, *a, **kw), os.fspath(file))
    return _orig["open"](file, mode, *a, **kw)


def install():
    if _orig:
        return
    _orig["open"] = builtins.open
    _orig["is_file"] = pathlib.Path.is_file

    def is_file(self, *a, **kw):
        f = _state["fault"]
        if f and not _state["fired"] and f["kind"] == "vanish" and f.get("target") and _match(self, f["target"]):
            _fire("is_file", "vanish")
            try:
                os.unlink(os.fspath(self))
            except OSError:
                pass
        return _orig["is_file"](self, *a, **kw)

    builtins.open = _open
    io.open = _open
    pathlib.Path.is_file = is_file


def arm(fault: dict | None):
    """fault = {"kind": ..., "target": realpath or None, "under": project dir}; None disarms."""
    _state["fault"] = dict(fault) if fault else None
    _state["fired"] = 0
    _state["log"] = []


def fired() -> int:
    return _state["fired"]


def disarm() -> int:
    n = _state["fired"]
    _state["fault"] = None
    _state["fired"] = 0
    return n
