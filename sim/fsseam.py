"""pathlib seam: one-shot call faults that file *state* cannot express.

Installed in the process that runs the gotranx CLI (the C18 worker for in-process
invocations, `cli_launcher.py` for real-process ones).  A fault is armed for the next
invocation only, is keyed by resolved path, fires at most once and is counted when it
actually fires.  Kinds:

  read_eio / read_eacces   Path.read_text(target) raises OSError(EIO) / PermissionError
  vanish                   the target is unlinked at the instant of Path.is_file(target)
                           (TOCTOU between typer's existence check and load_ode)
  write_enospc             Path.write_text(<any output>) raises ENOSPC before writing
  write_partial            ... writes the first half of the data, then raises ENOSPC
"""

from __future__ import annotations

import errno
import os
import pathlib

_orig = {}
_state = {"fault": None, "fired": 0, "log": []}


def _real(p) -> str:
    try:
        return os.path.realpath(os.fspath(p))
    except Exception:
        return str(p)


def _match(p, target) -> bool:
    if target is None:
        return True
    return _real(p) == target


def install():
    if _orig:
        return
    P = pathlib.Path
    _orig["read_text"] = P.read_text
    _orig["write_text"] = P.write_text
    _orig["is_file"] = P.is_file

    def read_text(self, *a, **kw):
        f = _state["fault"]
        if f and not _state["fired"] and f["kind"] in ("read_eio", "read_eacces") and _match(self, f.get("target")):
            _state["fired"] += 1
            _state["log"].append(["read_text", f["kind"]])
            if f["kind"] == "read_eio":
                raise OSError(errno.EIO, "Input/output error (injected)", str(self))
            raise PermissionError(errno.EACCES, "Permission denied (injected)", str(self))
        return _orig["read_text"](self, *a, **kw)

    def write_text(self, data, *a, **kw):
        f = _state["fault"]
        if f and not _state["fired"] and f["kind"] in ("write_enospc", "write_partial") and _match(self, f.get("target")):
            _state["fired"] += 1
            _state["log"].append(["write_text", f["kind"]])
            if f["kind"] == "write_partial":
                _orig["write_text"](self, data[: len(data) // 2], *a, **kw)
            raise OSError(errno.ENOSPC, "No space left on device (injected)", str(self))
        return _orig["write_text"](self, data, *a, **kw)

    def is_file(self, *a, **kw):
        f = _state["fault"]
        if f and not _state["fired"] and f["kind"] == "vanish" and _match(self, f.get("target")):
            _state["fired"] += 1
            _state["log"].append(["is_file", "vanish"])
            try:
                os.unlink(os.fspath(self))
            except OSError:
                pass
        return _orig["is_file"](self, *a, **kw)

    P.read_text = read_text
    P.write_text = write_text
    P.is_file = is_file


def arm(fault: dict | None):
    """fault = {"kind": ..., "target": realpath or None}; None disarms."""
    _state["fault"] = dict(fault) if fault else None
    _state["fired"] = 0
    _state["log"] = []


def fired() -> int:
    return _state["fired"]


def disarm() -> int:
    n = _state["fired"]
    _state["fault"] = None
    _state["fired"] = 0
    return n
