"""Real-process CLI: `python cli_launcher.py <plan.json>`.

Installs the same pathlib seam as the in-process harness from a JSON fault plan, then
runs gotranx exactly as `python -m gotranx <argv>` does (gotranx/__main__.py:
`raise SystemExit(app())`).  Writes how often the fault fired next to the plan."""

import json
import os
import sys
from pathlib import Path

HERE = Path(__file__).resolve().parent
plan_path = Path(sys.argv[1])
plan = json.loads(plan_path.read_text())
sys.path.insert(0, str(HERE.parent))
from sim import fsseam  # noqa: E402

import sympy.core.random as _sympy_random  # noqa: E402

# seam: the simulation owns sympy's entropy-seeded RNG (shuffled assumption queries)
_sympy_random.seed(int(plan.get("sympy_seed", 0)))

if plan.get("mode") == "api":
    # reference side of a confirmation: the library API in a fresh, equally seeded process
    from sim.c18_world import api_text

    with open(plan["data"], "rb") as _fh:
        _data = _fh.read()
    _text = api_text(plan["kind"], _data, plan["stem"], plan["suffix"], plan["ro"], Path(plan["tmp"]))
    with open(plan["out"], "wb") as _fh:
        _fh.write(b"INVALID\n" if _text is None else b"OK\n" + _text.encode("utf-8"))
    sys.stdout.flush()
    sys.stderr.flush()
    os._exit(0)

code = 1
try:
    if plan.get("fault"):
        fsseam.install()
        fsseam.arm(plan["fault"])
    sys.argv = ["gotranx"] + list(plan["argv"])
    from gotranx.cli import app

    try:
        rv = app()
        code = 0 if rv is None else rv
    except SystemExit as e:
        code = e.code if isinstance(e.code, int) else (0 if e.code is None else 1)
finally:
    n_fired = fsseam.fired()
    fsseam.arm(None)  # the report below must not meet the fault it reports on
    try:
        with open(str(plan_path) + ".fired", "w") as fh:
            fh.write(json.dumps({"fired": n_fired, "code": code}))
    except Exception:
        pass
sys.stdout.flush()
sys.stderr.flush()
os._exit(code if isinstance(code, int) else 1)
