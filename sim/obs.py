"""Observation helpers shared by workers and drivers: digests and slot layout read
back from the *emitted text* (what a user of the generated file would see)."""

from __future__ import annotations

import ast
import hashlib
import json
import re


def sha(data) -> str:
    if isinstance(data, str):
        data = data.encode("utf-8", "surrogatepass")
    return hashlib.sha256(data).hexdigest()


def canon(obj) -> str:
    """Canonical JSON (sorted keys, no whitespace)."""
    return json.dumps(obj, sort_keys=True, separators=(",", ":"), default=str)


_INDEX_NAMES = ("state", "parameter", "monitor", "missing")


def layout_from_python(code: str) -> dict:
    """Index maps from the module-level `state = {...}` ... literals (NumPy / JAX)."""
    out: dict = {}
    try:
        tree = ast.parse(code)
    except SyntaxError:
        return {"_unparsable": True}
    for node in tree.body:
        if isinstance(node, ast.Assign) and len(node.targets) == 1:
            tgt = node.targets[0]
            if isinstance(tgt, ast.Name) and tgt.id in _INDEX_NAMES:
                try:
                    val = ast.literal_eval(node.value)
                except Exception:
                    continue
                if isinstance(val, dict):
                    # first definition wins (a model could not redefine these)
                    out.setdefault(tgt.id, [[k, v] for k, v in val.items()])
    return out


_C_FUNC = re.compile(r"int (\w+)_index\(const char name\[\]\)\s*\{(.*?)return -1;", re.S)
_C_ENTRY = re.compile(r'strcmp\(name, "([^"]*)"\) == 0\)\s*\{\s*return (\d+);')
_C_NUM = re.compile(r"int (NUM_\w+) = (\d+);")


def layout_from_c(code: str) -> dict:
    """Index maps from the strcmp chains and NUM_* constants of the C output.

    The C template names the missing-variable index function `monitor_index` too
    (that is what the repository emits); occurrences are therefore numbered."""
    out: dict = {}
    seen: dict = {}
    for m in _C_FUNC.finditer(code):
        kind = m.group(1)
        seen[kind] = seen.get(kind, 0) + 1
        key = kind if seen[kind] == 1 else "%s#%d" % (kind, seen[kind])
        out[key] = [[n, int(i)] for n, i in _C_ENTRY.findall(m.group(2))]
    for name, val in _C_NUM.findall(code):
        out[name] = int(val)
    return out


def layout_of(code: str, backend: str) -> dict:
    return layout_from_c(code) if backend == "c" else layout_from_python(code)
