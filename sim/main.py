"""Command-line entry of the verification machinery (see /verif/check)."""

from __future__ import annotations

import json
import os
import sys
from pathlib import Path


def main(argv: list) -> int:
    from . import core

    if not argv:
        print(__doc__)
        print("usage: check <C09|C18> <quick|thorough|smoke> | check --replay <file> | check selftest ...")
        return 2
    workers = int(os.environ.get("VERIF_WORKERS", "16"))
    try:
        if argv[0] == "--replay":
            path = argv[1]
            prop = json.loads(Path(path).read_text()).get("property")
            if prop == "C09":
                from . import c09

                return c09.replay(path, workers=min(workers, 8))
            if prop == "C18":
                from . import c18

                return c18.replay(path)
            print("unknown property in replay file: %r" % prop)
            return 2
        if argv[0] == "sensitivity":
            from . import sensitivity

            return sensitivity.main(argv[1:])
        if argv[0] == "selftest":
            from . import selftest

            return selftest.main(argv[1:])
        prop = argv[0]
        tier = argv[1] if len(argv) > 1 else os.environ.get("VERIF_TIER", "quick")
        if prop == "C09":
            from . import c09

            return c09.main(tier, workers=workers)
        if prop == "C18":
            from . import c18

            return c18.main(tier, workers=workers)
        print("unknown property %r" % prop)
        return 2
    except core.HarnessError as e:
        print("HARNESS-ERROR %s" % e)
        return core.EXIT_HARNESS


if __name__ == "__main__":
    sys.exit(main(sys.argv[1:]))
