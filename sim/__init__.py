"""Deterministic-simulation machinery for the gotranx properties C09 and C18.

See /verif/DESIGN.md.  Nothing in this package imports gotranx at module import
time except `life.py` and the C18 worker, which run in processes launched by the
drivers with the environment (hash key, PATH, HOME, TMPDIR) the simulation chose.
"""
