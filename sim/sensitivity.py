"""Sensitivity battery: does the check go red when the property is really broken?

For every /verif/seeded/<id>/ (patch.diff + meta.json naming the property) a scratch
copy of /repo's working-tree sources is made OUTSIDE /repo and /verif, the patch is applied
there, the property's check is run against that tree (VERIF_REPO=<worktree>, evidence
redirected to scratch), and the worktree is removed again.  /repo itself is never
touched.  Results go to seeded/sensitivity_results.json; the exit status is 0 unless the
battery itself could not run (it is not a registered property check).

usage: ./check sensitivity [tier] [id ...]
"""

from __future__ import annotations

import json
import os
import shutil
import subprocess
import sys
import tempfile
import time
from pathlib import Path

from . import core

SEEDED = core.VERIF / "seeded"
BENIGN = core.VERIF / "seeded_benign"  # property-preserving changes: the check must stay green


def _dir(sid: str) -> Path:
    return SEEDED / sid if (SEEDED / sid).exists() else BENIGN / sid


def run_one(sid: str, tier: str, base: Path) -> dict:
    d = _dir(sid)
    meta = json.loads((d / "meta.json").read_text())
    prop = meta["property"]
    wt = base / ("wt_" + sid)
    ev = base / ("ev_" + sid)
    ev.mkdir(parents=True)
    out = {"id": sid, "property": prop, "tier": tier, "expect": "clean" if d.parent == BENIGN else "violation"}
    t0 = time.time()
    try:
        # a plain copy of /repo's *working tree* sources (no git metadata of /repo is touched)
        wt.mkdir(parents=True)
        shutil.copytree(str(core.REPO / "src"), str(wt / "src"), ignore=shutil.ignore_patterns("__pycache__", "*.egg-info"))
        ap = subprocess.run(["git", "apply", str(d / "patch.diff")], cwd=str(wt), capture_output=True, text=True)
        if ap.returncode != 0:
            out["error"] = "patch does not apply: " + ap.stderr[-300:]
            return out
        env = dict(os.environ)
        env.update({"VERIF_REPO": str(wt), "VERIF_EVIDENCE_DIR": str(ev)})
        seeds = meta.get("seeds") or [os.environ.get("VERIF_SEED", "20261001")]
        out["runs"] = []
        for seed in seeds:
            env["VERIF_SEED"] = str(seed)
            cp = subprocess.run([str(core.VERIF / "check"), prop, tier], env=env, capture_output=True, text=True, timeout=7200)
            lines = [ln for ln in cp.stdout.splitlines() if ln.startswith(("VIOLATION", "violation:", "HARNESS", "KNOWN"))]
            out["runs"].append({"seed": int(seed), "rc": cp.returncode, "lines": lines[:6], "n_violation_lines": sum(1 for ln in lines if ln.startswith("VIOLATION"))})
            if cp.returncode == 1:
                break
        out["detected"] = any(r["rc"] == 1 and r["n_violation_lines"] > 0 for r in out["runs"])
        out["all_clean"] = all(r["rc"] == 0 for r in out["runs"])
        # clean control is implied by the registered check passing on /repo itself
    finally:
        shutil.rmtree(wt, ignore_errors=True)
        out["wall_s"] = round(time.time() - t0, 1)
    return out


def main(argv: list) -> int:
    tier = "quick"
    ids = []
    for a in argv:
        if a in ("quick", "thorough", "smoke"):
            tier = a
        else:
            ids.append(a)
    if not ids:
        ids = sorted(p.name for root in (SEEDED, BENIGN) if root.exists() for p in root.iterdir()
                     if (p / "patch.diff").exists() and (p / "meta.json").exists())
    base = Path(tempfile.mkdtemp(prefix="gotranx-verif-sens-", dir=os.environ.get("VERIF_SCRATCH") or os.environ.get("TMPDIR") or "/tmp"))
    results = []
    try:
        for sid in ids:
            r = run_one(sid, tier, base)
            results.append(r)
            if r["expect"] == "clean":
                verdict = "clean (as it should)" if r.get("all_clean") else ("ERROR " + r.get("error", "") if "error" in r else "FALSE ALARM / non-zero exit")
            else:
                verdict = "DETECTED" if r.get("detected") else ("ERROR " + r.get("error", "") if "error" in r else "missed")
            print("%-40s %-4s %s  (%.0fs) %s" % (sid, r["property"], verdict,
                                               r.get("wall_s", 0), (r.get("runs") or [{}])[-1].get("lines", [""])[:1]))
            sys.stdout.flush()
    finally:
        shutil.rmtree(base, ignore_errors=True)
    path = SEEDED / "sensitivity_results.json"  # not under evidence/: that directory holds per-property evidence only
    merged = {}
    if path.exists():
        try:
            merged = {r["id"]: r for r in json.loads(path.read_text()).get("results", [])}
        except Exception:
            merged = {}
    for r in results:
        merged[r["id"]] = dict(r, repo_head=core.repo_state()["head"])
    allr = [merged[k] for k in sorted(merged) if _dir(k).exists()]
    breaking = [r for r in allr if r.get("expect") != "clean"]
    benign = [r for r in allr if r.get("expect") == "clean"]
    doc = {"results": allr, "detected": sum(1 for r in breaking if r.get("detected")), "total": len(breaking),
           "benign_total": len(benign), "benign_clean": sum(1 for r in benign if r.get("all_clean"))}
    try:  # keep the per-seed history block of earlier complete batteries, if any
        prev = json.loads(path.read_text())
        if "by_seed" in prev:
            doc["by_seed"] = prev["by_seed"]
            doc["note"] = prev.get("note", "")
    except Exception:
        pass
    path.write_text(json.dumps(doc, indent=1, sort_keys=True))
    print("sensitivity: recorded overall %d of %d breaking changes detected; %d of %d property-preserving changes clean (tier of this run: %s)" %
          (doc["detected"], doc["total"], doc["benign_clean"], doc["benign_total"], tier))
    return 0
