"""Determinism self-test: one seed must be one execution.

For each of n seeds the check is run twice in fresh processes -- with 4 and with 16
workers, and with the *driver* under PYTHONHASHSEED=0 and =12345 -- and the canonical
event-log digests the two runs write into their evidence must be identical.  A
mismatch is a harness bug (exit 3), never a property violation.

usage: ./check selftest <C09|C18> [n_seeds] [tier]
"""

from __future__ import annotations

import json
import os
import shutil
import subprocess
import sys
import tempfile
from concurrent.futures import ThreadPoolExecutor
from pathlib import Path

from . import core


def one_run(prop: str, tier: str, seed: int, workers: int, driver_hs: str, outdir: Path) -> dict:
    env = dict(os.environ)
    env.update({"VERIF_SEED": str(seed), "VERIF_WORKERS": str(workers), "VERIF_DRIVER_HASHSEED": driver_hs,
                "VERIF_EVIDENCE_DIR": str(outdir), "PYTHONHASHSEED": driver_hs})
    cp = subprocess.run([str(core.VERIF / "check"), prop, tier], env=env, capture_output=True, text=True, timeout=3600)
    ev = outdir / ("%s.json" % prop)
    doc = json.loads(ev.read_text()) if ev.exists() else {}
    return {"rc": cp.returncode, "log": doc.get("coverage", {}).get("canonical_event_log_sha256"),
            "violations": doc.get("violations"), "tail": cp.stdout[-400:]}


def main(argv: list) -> int:
    prop = argv[0] if argv else "C09"
    n = int(argv[1]) if len(argv) > 1 else 8
    tier = argv[2] if len(argv) > 2 else "smoke"
    base = int(os.environ.get("VERIF_SEED", "1000"))
    tmp = Path(tempfile.mkdtemp(prefix="gotranx-verif-selftest-", dir=os.environ.get("VERIF_SCRATCH") or os.environ.get("TMPDIR") or "/tmp"))
    bad = 0
    try:
        jobs = []
        for k in range(n):
            seed = base + k
            jobs.append((seed, 4, "0", tmp / ("s%d_a" % seed)))
            jobs.append((seed, 16, "12345", tmp / ("s%d_b" % seed)))
        for _, _, _, d in jobs:
            d.mkdir(parents=True)
        # two runs at a time: each already fans out to its own workers
        with ThreadPoolExecutor(max_workers=2) as ex:
            res = list(ex.map(lambda j: one_run(prop, tier, j[0], j[1], j[2], j[3]), jobs))
        for k in range(n):
            a, b = res[2 * k], res[2 * k + 1]
            ok = a["log"] is not None and a["log"] == b["log"] and a["rc"] == b["rc"]
            print("seed %d: %s  log=%s rc=%s/%s" % (base + k, "same" if ok else "DIFFERENT", (a["log"] or "none")[:16], a["rc"], b["rc"]))
            if not ok:
                bad += 1
                print("   run a (4 workers, driver hashseed 0):", a["tail"].replace("\n", " | ")[-300:])
                print("   run b (16 workers, driver hashseed 12345):", b["tail"].replace("\n", " | ")[-300:])
    finally:
        shutil.rmtree(tmp, ignore_errors=True)
    if bad:
        print("HARNESS-ERROR nondeterministic event log for %d of %d seeds" % (bad, n))
        return core.EXIT_HARNESS
    print("selftest %s: %d seeds x 2 runs (4/16 workers, driver hash seed 0/12345): identical event logs" % (prop, n))
    return 0
