"""C18 worker: one process, one derived Hypothesis seed, many short user sessions.

Launched by the driver as `/venv/bin/python /verif/sim/c18_worker.py <plan.json>` with
the environment (PATH with or without the stub formatter, HOME, XDG_*, TMPDIR,
PYTHONHASHSEED) the simulation chose.  A Hypothesis RuleBasedStateMachine generates and
shrinks the operation-and-fault sequence; the replay file is our own recorded op list.
"""

from __future__ import annotations

import json
import os
import re
import shutil
import sys
import traceback
import warnings
from pathlib import Path

HERE = Path(__file__).resolve().parent
sys.path.insert(0, str(HERE.parent))

from sim import fsseam, obs  # noqa: E402
from sim.c18_world import World  # noqa: E402


class Ctx:
    plan: dict = {}
    scratch: Path = Path(".")
    session = 0
    stats: dict = {}
    log: list = []
    samples: list = []
    frozen = False
    violation = None
    shrink_runs = 0
    shrink_cap = 150
    harness_error = None
    sigs: set = set()


CTX = Ctx()

SCHEMES = ["explicit_euler", "generalized_rush_larsen", "forward_explicit_euler",
           "forward_generalized_rush_larsen", "hybrid_rush_larsen"]
NAMES = ["m", "cell", "model_2", "cell.v2", "my model", "Cell-\u03b1"]
DAMAGE = ["delete", "empty", "truncate", "truncate", "flip", "flip", "badutf8", "badutf8", "latin1", "dir", "dup_tail", "crlf", "bom"]
ARMS = [("read_eio", "model"), ("read_eacces", "model"), ("vanish", "model"), ("vanish_at_open", "model"), ("read_eio", "config"),
        ("read_eacces", "config"), ("write_enospc", "output"), ("write_partial", "output")]


def state_names(pool: list) -> list:
    names = []
    for text in pool:
        for m in re.finditer(r"^d(\w+)_dt\s*=", text, re.M):
            if m.group(1) not in names:
                names.append(m.group(1))
    names = names[:12]
    # names that are NOT states but differ from one only in case: they must have no effect
    variants = []
    for n in names[:6]:
        for v in (n.lower(), n.upper(), n.swapcase()):
            if v != n and v not in names and v not in variants:
                variants.append(v)
    return names + variants[:6] + ["zz_not_a_state"]


def build_machine():
    import hypothesis.strategies as st
    from hypothesis.stateful import RuleBasedStateMachine, initialize, precondition, rule

    plan = CTX.plan
    pool = plan["pool"]
    stiff_pool = state_names(pool)
    faults_on = bool(plan.get("faults"))
    stub_present = plan.get("stub") == "present"
    heavy = bool(plan.get("heavy"))

    cfg_strategy = st.fixed_dictionaries({}, optional={
        "verbose": st.booleans(),
        "delta": st.sampled_from([1e-6, 0.001, 0.5, 0.0]),
        "scheme": st.lists(st.sampled_from(SCHEMES), max_size=3, unique=True),
        "stiff_states": st.lists(st.sampled_from(stiff_pool), max_size=3, unique=True),
        "python": st.fixed_dictionaries({}, optional={"format": st.sampled_from(["none", "black"]),
                                                      "backend": st.sampled_from(["numpy", "jax"])}),
        "c": st.fixed_dictionaries({}, optional={"format": st.sampled_from(["none", "clang-format"]),
                                                 "to": st.sampled_from([".c", ".h"])}),
    })

    def some(elems, min_size=1, max_size=3):
        """Mostly duplicate-free lists; one in four may repeat an element (`--scheme X --scheme X`)."""
        u = st.lists(elems, min_size=min_size, max_size=max_size, unique=True)
        return st.one_of(u, u, u, st.lists(elems, min_size=min_size, max_size=max_size))

    @st.composite
    def invocation(draw):
        """Abstract invocation; the file it targets is resolved against the world's
        current contents when the rule runs (so most invocations hit a real model)."""
        cmd = draw(st.sampled_from(["ode2py"] * 4 + ["ode2c"] * 3 + ["cellml2ode", "convert", "convert"]))
        cwd = draw(st.sampled_from([".", ".", ".", "sub"]))
        pick = draw(st.integers(0, 999))
        missing = draw(st.integers(0, 14)) == 0
        wrong_kind = draw(st.integers(0, 9)) == 0
        o = {}
        if cmd != "cellml2ode":
            if draw(st.booleans()):
                o["scheme"] = draw(some(st.sampled_from(SCHEMES)))
            if draw(st.integers(0, 3)) == 0:
                o["stiff"] = draw(some(st.sampled_from(stiff_pool)))
            if draw(st.integers(0, 2)) == 0:
                o["delta"] = draw(st.sampled_from([1e-8, 1e-6, 0.001, 0.5]))
            if draw(st.integers(0, 2)) == 0:
                o["remove_unused"] = True
        if cmd == "ode2py":
            f = draw(st.sampled_from([None, "none", "none", "black"]))
            if f:
                o["format"] = f
            b = draw(st.sampled_from([None, None, "numpy", "jax"]))
            if b:
                o["backend"] = b
        if cmd == "ode2c":
            f = draw(st.sampled_from([None, "none", "none", "clang-format"]))
            if f:
                o["format"] = f
            t = draw(st.sampled_from([None, ".c", ".h"]))
            if t:
                o["to"] = t
        if cmd == "convert":
            t = draw(st.sampled_from([".py", ".py", ".c", ".h", ".ode", "py", "python", "c", None]))
            if t is not None:
                o["to"] = t
            if draw(st.integers(0, 3)) == 0:
                o["jax"] = True
        out = draw(st.sampled_from([None, None, None, "out", "out{sfx}", "gen/out", "nodir/out", "out.txt",
                                    "ABS:gen/abs_out", "{stem}{sfx}", "{stem}_2"]))
        if out is not None:
            o["outname"] = out
        cfgpick = None
        if cmd != "convert":
            cfgpick = draw(st.sampled_from([None, None, None, "cfg/my.toml", "cfg/my.toml", "cfg/my.toml", "cfg/missing.toml", "pyproject.toml"]))
        if draw(st.integers(0, 5)) == 0:
            o["verbose"] = True
        arm = None
        if faults_on and draw(st.integers(0, 3)) == 0:
            # the fault is placed *inside* this invocation (armed right before it)
            arm = draw(st.sampled_from(ARMS))
            if arm[1] == "config" and cmd != "convert" and cfgpick in (None, "cfg/missing.toml"):
                cfgpick = draw(st.sampled_from(["cfg/my.toml", "pyproject.toml"]))
        return {"cmd": cmd, "cwd": cwd, "pick": pick, "missing": missing, "wrong_kind": wrong_kind, "opts": o,
                "cfgpick": cfgpick, "arm": arm}

    def resolve(world, inv: dict) -> dict:
        """Concrete op (recorded in the trace) from an abstract invocation."""
        cmd, cwd, o = inv["cmd"], inv["cwd"], dict(inv["opts"])
        files = sorted(str(p.relative_to(world.proj)) for p in world.proj.rglob("*")
                       if p.suffix in (".ode", ".cellml") and (p.is_file() or p.is_dir()) and ".git" not in p.parts)
        want = ".cellml" if (cmd == "cellml2ode") != inv["wrong_kind"] else ".ode"
        if cmd == "convert" and o.get("to") == ".ode":
            want = ".cellml"
        cands = [f for f in files if f.endswith(want)] or files
        if inv["missing"] or not cands:
            rel = "nonexistent" + want
        else:
            rel = cands[inv["pick"] % len(cands)]
        fname = os.path.relpath(world.proj / rel, world.proj / "sub" if cwd == "sub" else world.proj)
        stem = Path(rel).stem
        sfx = {"ode2py": ".py", "ode2c": o.get("to", ".h"), "cellml2ode": ".ode"}.get(cmd, ".py")
        if o.get("outname"):
            o["outname"] = o["outname"].replace("{sfx}", sfx).replace("{stem}", stem)
        if inv.get("cfgpick"):
            o["config"] = ("../" + inv["cfgpick"]) if cwd == "sub" else inv["cfgpick"]
        return {"cmd": cmd, "cwd": cwd, "fname": fname, "opts": o}

    class Machine(RuleBasedStateMachine):
        def __init__(self):
            super().__init__()
            CTX.session += 1
            if CTX.frozen:
                CTX.shrink_runs += 1
            # bounded shrinking: beyond the cap every further session is a no-op, so
            # Hypothesis' shrinker runs dry quickly; the smallest failing trace seen
            # so far is what gets reported (and is re-confirmed by the driver)
            self.noop = (CTX.frozen and CTX.shrink_runs > CTX.shrink_cap) or CTX.harness_error is not None
            self.root = CTX.scratch / ("s%06d" % CTX.session)
            if self.root.exists():
                shutil.rmtree(self.root)
            self.world = World(self.root, pool, plan.get("stub", "absent"), plan["hash_key"],
                               mirror_salt=plan["hyp_seed"] * 1000003 + CTX.session,
                               mirror_rate=plan.get("mirror_rate", 32), sympy_seed=plan.get("sympy_seed", 0))

        @initialize(idx=st.integers(0, len(pool) - 1), name=st.sampled_from(NAMES), git=st.sampled_from([True, True, True, False]),
                    cfg_where=st.sampled_from([None, "explicit", "explicit", "pyproject"]), cfg=cfg_strategy,
                    with_cellml=st.sampled_from([False, False, False, True]))
        def start(self, idx, name, git, cfg_where, cfg, with_cellml):
            if self.noop:
                return
            self.world.put_model(name, ".", "ode", idx)
            if with_cellml:
                # a quarter of the sessions also start with a CellML file (the less travelled path)
                self.world.put_model(name, ".", "cellml", 0)
            if git:
                self.world.git_marker(True)
            if cfg_where:
                self.world.put_config(cfg_where, cfg, False)

        @rule(name=st.sampled_from(NAMES), where=st.sampled_from([".", ".", "sub"]),
              kind=st.sampled_from(["ode", "ode", "ode", "ode", "cellml"] if heavy else ["ode"] * 6 + ["cellml"]),
              idx=st.integers(0, len(pool) - 1))
        def put_model(self, name, where, kind, idx):
            if self.noop:
                return
            self.world.put_model(name, where, kind, idx)

        @rule(where=st.sampled_from(["pyproject", "pyproject", "explicit", "explicit", "sub"]), cfg=cfg_strategy,
              black_table=st.booleans())
        def put_config(self, where, cfg, black_table):
            if self.noop:
                return
            self.world.put_config(where, cfg, black_table)

        @rule(on=st.booleans())
        def git_marker(self, on):
            if self.noop:
                return
            self.world.git_marker(on)

        @precondition(lambda self: faults_on)
        @rule(pick=st.integers(0, 999), fault=st.sampled_from(DAMAGE), k=st.integers(0, 20000))
        def damage(self, pick, fault, k):
            if self.noop:
                return
            files = sorted(str(p.relative_to(self.world.proj)) for p in self.world.proj.rglob("*")
                           if p.is_file() and ".git" not in p.parts)
            models = [f for f in files if f.endswith((".ode", ".cellml"))]
            # two times out of three the fault hits a model file (the input of the next
            # invocations); otherwise any file of the project (outputs, configs)
            pool_ = models if (models and pick % 3 != 0) else files
            if pool_:
                self.world.damage(pool_[(pick // 3) % len(pool_)], fault, k)

        @precondition(lambda self: faults_on)
        @rule(pick=st.integers(0, 999), fault=st.sampled_from(DAMAGE), k=st.integers(0, 20000), inv=invocation())
        def damage_then_convert(self, pick, fault, k, inv):
            """A state fault on a model file immediately followed by the conversion that
            consumes that very file (faults placed right before the operation they hit)."""
            if self.noop:
                return
            models = sorted(str(p.relative_to(self.world.proj)) for p in self.world.proj.rglob("*")
                            if p.is_file() and p.suffix in (".ode", ".cellml") and ".git" not in p.parts)
            if not models:
                return
            # CellML files first when there are any: the less travelled path
            cells = [m for m in models if m.endswith(".cellml")]
            rel = (cells if (cells and pick % 2 == 0) else models)[(pick // 2) % len(cells if (cells and pick % 2 == 0) else models)]
            try:
                self.world.damage(rel, fault, k)
                op = resolve(self.world, dict(inv, missing=False, wrong_kind=False))
                if rel.endswith(".cellml"):
                    op["cmd"] = "cellml2ode" if k % 3 else "convert"
                    op["opts"] = {kk: vv for kk, vv in op["opts"].items() if kk in ("outname", "verbose")}
                    if op["cmd"] == "convert":
                        op["opts"]["to"] = ".ode"
                    elif inv.get("cfgpick"):
                        op["opts"]["config"] = inv["cfgpick"]
                elif op["cmd"] == "cellml2ode":
                    op["cmd"] = "ode2py"
                op["fname"] = os.path.relpath(self.world.proj / rel, self.world.proj / "sub" if op["cwd"] == "sub" else self.world.proj)
                self.world.count("damage_then_convert")
                self.world.invoke(op)
            except AssertionError:
                raise
            except Exception as e:
                CTX.harness_error = "%s: %s\n%s" % (type(e).__name__, e, traceback.format_exc()[-1500:])
                self.noop = True

        @precondition(lambda self: faults_on and stub_present)
        @rule(mode=st.sampled_from(["ok", "fail", "partial", "garbage"]))
        def stub_mode(self, mode):
            if self.noop:
                return
            self.world.set_stub_mode(mode)

        def _invoke(self, inv):
            if self.noop:
                return
            try:
                op = resolve(self.world, inv)
                if inv.get("arm"):
                    self.world.arm(inv["arm"][0], inv["arm"][1])
                self.world.invoke(op)
            except AssertionError:
                raise
            except Exception as e:
                # harness trouble must never look like a property violation to the shrinker
                CTX.harness_error = "%s: %s\n%s\ntrace=%s" % (type(e).__name__, e, traceback.format_exc()[-1500:],
                                                             json.dumps(self.world.trace)[-1500:])
                self.noop = True

        @rule(which=st.sampled_from(["delta", "stiff", "scheme", "format", "backend", "remove_unused", "outname", "to", "same"]),
              delta=st.sampled_from([1e-8, 1e-6, 0.001, 0.5]),
              stiff=st.lists(st.sampled_from(stiff_pool), min_size=1, max_size=3, unique=True),
              scheme=st.lists(st.sampled_from(SCHEMES), min_size=1, max_size=3, unique=True),
              flag=st.booleans())
        def reinvoke_one_option_changed(self, which, delta, stiff, scheme, flag):
            """Repeat the previous invocation with exactly one option changed (or none):
            the sequence that exposes anything remembered between invocations."""
            if self.noop:
                return
            prev = next((t for t in reversed(self.world.trace) if t.get("op") == "invoke"), None)
            if prev is None:
                return
            op = {"cmd": prev["cmd"], "cwd": prev.get("cwd", "."), "fname": prev["fname"], "opts": dict(prev.get("opts", {}))}
            o = op["opts"]
            cmd = op["cmd"]
            if which == "delta" and cmd != "cellml2ode":
                o["delta"] = delta
                o.setdefault("scheme", ["generalized_rush_larsen"])
            elif which == "stiff" and cmd != "cellml2ode":
                o["stiff"] = stiff
                o.setdefault("scheme", ["hybrid_rush_larsen"])
            elif which == "scheme" and cmd != "cellml2ode":
                o["scheme"] = scheme
            elif which == "format" and cmd in ("ode2py", "ode2c"):
                o["format"] = "none" if o.get("format") not in (None, "none") or flag else ("black" if cmd == "ode2py" else "clang-format")
            elif which == "backend" and cmd == "ode2py":
                o["backend"] = "jax" if o.get("backend") != "jax" else "numpy"
            elif which == "remove_unused" and cmd != "cellml2ode":
                o["remove_unused"] = not o.get("remove_unused", False)
            elif which == "outname":
                o["outname"] = "again" if flag else "gen/again"
            elif which == "to" and cmd == "ode2c":
                o["to"] = ".c" if o.get("to") != ".c" else ".h"
            try:
                self.world.count("reinvoke:" + which)
                self.world.invoke(op)
            except AssertionError:
                raise
            except Exception as e:
                CTX.harness_error = "%s: %s\n%s" % (type(e).__name__, e, traceback.format_exc()[-1500:])
                self.noop = True

        # several identical invoke rules: invocations should dominate the step budget
        @rule(inv=invocation())
        def invoke(self, inv):
            self._invoke(inv)

        @rule(inv=invocation())
        def invoke2(self, inv):
            self._invoke(inv)

        @rule(inv=invocation())
        def invoke3(self, inv):
            self._invoke(inv)

        @rule(inv=invocation())
        def invoke4(self, inv):
            self._invoke(inv)

        @rule(inv=invocation())
        def invoke5(self, inv):
            self._invoke(inv)

        def teardown(self):
            w = self.world
            if w.violation is not None:
                cand = {"violation": w.violation, "trace": list(w.trace)}
                size = (len(cand["trace"]), len(obs.canon(cand["trace"])))
                if CTX.violation is None or size < CTX.violation["_size"]:
                    cand["_size"] = size
                    CTX.violation = cand
            if not CTX.frozen:
                for k, v in sorted(w.stats.items()):
                    CTX.stats[k] = CTX.stats.get(k, 0) + v
                CTX.stats["sessions"] = CTX.stats.get("sessions", 0) + 1
                CTX.sigs |= w.sigs
                CTX.log.append([CTX.session, [[e["argv"], e["cwd"], e["code"], e["verdict"], e["fired"]] for e in w.events]])
                if len(CTX.samples) < 3 and w.events:
                    CTX.samples.append({"ops": [t for t in w.trace][:10], "events": w.events[:6]})
                if w.violation is not None:
                    CTX.frozen = True  # everything after this is Hypothesis shrinking
            shutil.rmtree(self.root, ignore_errors=True)

    return Machine


def run(plan: dict) -> dict:
    from hypothesis import HealthCheck, Phase, Verbosity, seed, settings
    from hypothesis.stateful import run_state_machine_as_test

    CTX.plan = plan
    CTX.scratch = Path(plan["scratch"])
    CTX.scratch.mkdir(parents=True, exist_ok=True)
    import gotranx  # noqa: F401  the system under test, imported once per worker
    import sympy.core.random as sympy_random

    sympy_random.seed(int(plan.get("sympy_seed", 0)))  # seam: sympy's own RNG belongs to the schedule
    import structlog
    import logging

    structlog.configure(wrapper_class=structlog.make_filtering_bound_logger(logging.INFO))
    fsseam.install()
    Machine = build_machine()
    cfg = settings(max_examples=int(plan["sessions"]), stateful_step_count=int(plan.get("steps", 8)), deadline=None,
                   database=None, phases=(Phase.generate, Phase.shrink), suppress_health_check=list(HealthCheck),
                   report_multiple_bugs=False, print_blob=False, verbosity=Verbosity.quiet)
    failed = None
    try:
        run_state_machine_as_test(seed(int(plan["hyp_seed"]))(Machine), settings=cfg)
    except AssertionError as e:
        failed = str(e)[:500]
    except Exception as e:  # Flaky etc. once the shrink cap turned sessions into no-ops
        if CTX.violation is None:
            raise
        failed = "%s: %s" % (type(e).__name__, str(e)[:300])
    if CTX.harness_error is not None:
        return {"worker": plan["worker"], "harness_error": CTX.harness_error}
    if CTX.violation is not None:
        simp = simplify_trace(plan, CTX.violation)
        CTX.violation = dict(simp, _size=0)
    out = {
        "worker": plan["worker"], "hyp_seed": plan["hyp_seed"], "stub": plan.get("stub"), "faults": bool(plan.get("faults")),
        "stats": dict(sorted(CTX.stats.items())), "log_digest": obs.sha(obs.canon(CTX.log)), "samples": CTX.samples,
        "n_sessions": CTX.stats.get("sessions", 0), "failed": failed,
        "violation": CTX.violation and {k: v for k, v in CTX.violation.items() if k != "_size"},
        "shrink_runs": CTX.shrink_runs,
        "sigs": sorted(CTX.sigs),
    }
    return out


def simplify_trace(plan: dict, best: dict, budget: int = 60) -> dict:
    """Own bounded minimisation after Hypothesis: drop ops, then drop options of the
    failing invocation, while the same (command, reason) violation persists."""
    want = (best["violation"]["cmd"], best["violation"]["why"])
    trace = list(best["trace"])
    runs = [0]

    def fails(tr):
        if runs[0] >= budget:
            return None
        runs[0] += 1
        root = CTX.scratch / ("min%04d" % runs[0])
        w = World(root, plan["pool"], plan.get("stub", "absent"), plan["hash_key"], mirror_rate=0, sympy_seed=plan.get("sympy_seed", 0))
        try:
            for op in tr:
                w.apply(op)
        except AssertionError:
            pass
        except Exception:
            return None
        finally:
            shutil.rmtree(root, ignore_errors=True)
        v = w.violation
        if v and (v["cmd"], v["why"]) == want and w.trace and w.trace[-1].get("op") == "invoke":
            return {"violation": v, "trace": list(w.trace)}
        return None

    cur = {"violation": best["violation"], "trace": trace}
    i = 0
    while i < len(cur["trace"]) - 1:
        cand = cur["trace"][:i] + cur["trace"][i + 1:]
        r = fails(cand)
        if r:
            cur = r
        else:
            i += 1
    last = cur["trace"][-1]
    for k in sorted(last.get("opts", {})):
        o2 = {x: y for x, y in cur["trace"][-1]["opts"].items() if x != k}
        cand = cur["trace"][:-1] + [dict(cur["trace"][-1], opts=o2)]
        r = fails(cand)
        if r:
            cur = r
    if cur["trace"][-1].get("cwd") == "sub":
        r = fails(cur["trace"][:-1] + [dict(cur["trace"][-1], cwd=".")])
        if r:
            cur = r
    cur["simplify_runs"] = runs[0]
    return cur


def replay_trace(doc: dict, scratch: Path) -> dict:
    """Re-execute a recorded session; every invocation runs as a REAL process."""
    import gotranx  # noqa: F401

    fsseam.install()
    w = World(scratch / "replay", doc["pool"], doc.get("stub", "absent"), doc.get("hash_key", "0"), all_real=True,
              mirror_rate=0, sympy_seed=doc.get("sympy_seed", 0))
    err = None
    try:
        for op in doc["trace"]:
            w.apply(op)
    except AssertionError as e:
        err = str(e)
    return {"violation": w.violation, "error": err, "events": w.events}


def main():
    plan = json.loads(Path(sys.argv[1]).read_text())
    warnings.simplefilter("ignore")
    devnull = open(os.devnull, "w")
    os.dup2(devnull.fileno(), 1)
    os.dup2(devnull.fileno(), 2)
    try:
        if plan.get("mode") == "replay":
            result = replay_trace(plan["doc"], Path(plan["scratch"]))
        else:
            result = run(plan)
    except BaseException as e:  # harness trouble, reported apart from violations
        result = {"worker": plan.get("worker"), "harness_error": "%s: %s" % (type(e).__name__, e),
                  "trace": traceback.format_exc()[-3000:]}
    tmp = plan["result"] + ".tmp"
    Path(tmp).write_text(json.dumps(result))
    os.replace(tmp, plan["result"])


if __name__ == "__main__":
    main()
