"""Grammar-aware, seeded generator of .ode model *texts* (workload only).

The generator never imports gotranx: it emits text derivable from ode.lark and is
correct by construction (acyclic, every state has a derivative in its own
component, every referenced name is defined).  It is a workload for the simulator,
not the thing being searched: what the simulation varies is the hash key, the call
history and the process boundary under which these texts are loaded.

Everything here is a pure function of the `random.Random` passed in; no set or
dict is iterated in hash order (only lists, and dicts in insertion order).
"""

from __future__ import annotations

import re
from pathlib import Path

ALPHA = "abcdefghijklmnopqrstuvwxyzABCDEFGHIJKLMNOPQRSTUVWXYZ"
ALNUM = ALPHA + "0123456789_"

# Names the generator must not emit as model identifiers: grammar keywords and
# function tokens, names the generated code uses itself (that is C19's subject,
# not ours), Python / C keywords, sympy singletons.
RESERVED = set(
    """
    exp cos sin tan acos asin atan Abs abs floor ln log sqrt Gt Lt Ge Le And Or Eq Not Mod
    Conditional ContinuousConditional pi t time dt states parameters values shape numpy math
    jax jnp np missing_variables missing monitor state parameter name self ScalarParam unit
    description expressions component E I S N O Q oo zoo nan inf e d
    False None True and as assert async await break class continue def del elif else except
    finally for from global if import in is lambda nonlocal not or pass raise return try
    while with yield match case type print len range int float double char const void long
    short signed unsigned static struct union enum extern register volatile sizeof typedef
    auto goto switch default do restrict inline bool true false main strcmp fabs pow fmod
    M_PI M_E NUM_STATES NUM_PARAMS NUM_MONITORED y0 y1 yn j0 j1 jn gamma beta erf
    """.split()
)

_DERIV = re.compile(r"^d\w+_dt$")


def ident(rng, used: set, maxlen: int = 12) -> str:
    """A fresh identifier of length 1..maxlen over a large alphabet."""
    while True:
        n = rng.choice([1, 2, 2, 3, 3, 4, 5, 6, 8, 10, 12])
        n = min(n, maxlen)
        s = rng.choice(ALPHA) + "".join(rng.choice(ALNUM) for _ in range(n - 1))
        if s in RESERVED or s in used or _DERIV.match(s) or s.endswith("_linearized"):
            continue
        if s.startswith("__") or s.lower() in RESERVED:
            continue
        used.add(s)
        return s


def number(rng) -> str:
    k = rng.randrange(8)
    if k == 0:
        return str(rng.randrange(0, 10))
    if k == 1:
        return "%d.%d" % (rng.randrange(0, 100), rng.randrange(0, 100))
    if k == 2:
        return "%de-%d" % (rng.randrange(1, 10), rng.randrange(1, 6))
    if k == 3:
        return "%d.%dE%d" % (rng.randrange(1, 10), rng.randrange(0, 10), rng.randrange(1, 4))
    if k == 4:
        return "0.%03d" % rng.randrange(1, 1000)
    return "%d.%d" % (rng.randrange(0, 10), rng.randrange(0, 10))


_UNARY = ["exp", "cos", "sin", "tan", "atan", "sqrt", "log", "ln", "abs", "Abs", "exp", "sqrt"]
_REL = ["Lt", "Gt", "Le", "Ge"]


def _cond(rng, leaf, depth: int, sym=None) -> str:
    k = rng.randrange(10)
    a, b = leaf(), leaf()
    if sym is not None:
        a = sym()  # a relation between two literals folds to a constant: keep one side symbolic
    if depth > 0 and k in (0, 1):
        # two to four operands, possibly nested (sympy flattens nested And/Or of one kind)
        n = rng.choice([2, 2, 3, 3, 4])
        return "%s(%s)" % ("And" if k == 0 else "Or", ", ".join(_cond(rng, leaf, depth - 1, sym) for _ in range(n)))
    if depth > 0 and k == 2:
        return "Not(%s)" % _cond(rng, leaf, depth - 1, sym)
    if k == 3:
        return "Eq(%s, %s)" % (a, number(rng))
    return "%s(%s, %s)" % (rng.choice(_REL), a, b)


def expression(rng, deps: list, knobs: dict) -> str:
    """An expression that mentions every name in `deps` at least once."""
    leaves = list(deps)
    for _ in range(rng.randrange(0, 3)):
        leaves.append(number(rng))
    if not leaves:
        leaves = [number(rng)]
    rng.shuffle(leaves)

    def any_leaf():
        return rng.choice(leaves)

    sym = (lambda: rng.choice(deps)) if deps else None

    items = list(leaves)
    p_func = knobs.get("p_func", 0.25)
    p_cond = knobs.get("p_cond", 0.12)
    p_sing = knobs.get("p_sing", 0.05)
    while len(items) > 1:
        i = rng.randrange(len(items) - 1)
        a, b = items[i], items[i + 1]
        r = rng.random()
        if r < p_cond:
            c = _cond(rng, any_leaf, knobs.get("cond_depth", 1), sym)
            if sym is not None and rng.random() < 0.2:
                new = "ContinuousConditional(%s(%s, %s), %s, %s, %s)" % (
                    rng.choice(["Gt", "Lt"]),
                    sym(),
                    number(rng),
                    a,
                    b,
                    rng.choice(["0.5", "1.0", "2"]),
                )
            else:
                new = "Conditional(%s, %s, %s)" % (c, a, b)
        else:
            op = rng.choice(["+", "+", "-", "-", "*", "*", "/"])
            new = "%s %s %s" % (a, op, b)
            if rng.random() < 0.6:
                new = "(" + new + ")"
        if rng.random() < p_func:
            f = rng.choice(_UNARY)
            new = "%s(%s)" % (f, new)
        elif rng.random() < 0.08:
            new = "(%s)**%s" % (new, rng.choice(["2", "3", "0.5", "(-1)"]))
        elif rng.random() < 0.08:
            new = "-(%s)" % new
        elif rng.random() < 0.015:
            new = "floor(%s)" % new
        items[i : i + 2] = [new]
    out = items[0]
    if deps and rng.random() < p_sing:
        x = rng.choice(deps)
        out = "%s + %s/(exp(%s) - 1)" % (out, x, x)
    if rng.random() < 0.01:
        out = "Mod(%s, %s)" % (out, rng.choice(["2", "3.5"]))
    return out


def default_knobs(rng) -> dict:
    """Swarm: each model draws its own size knobs."""
    return {
        "n_comp": rng.choice([1, 1, 2, 2, 3, 4]),
        "n_states": rng.randrange(2, 9),
        "n_params": rng.choice([0, 1, 2, 3, 4, 5, 6, 7, 8, 2, 3, 4, 5, 6]),
        "n_inter": rng.choice([0, 2, 4, 6, 8, 10, 14, 18, 24, 30]),
        "max_fan": rng.choice([2, 3, 4, 6, 8]),
        "p_func": rng.choice([0.0, 0.15, 0.3]),
        "p_cond": rng.choice([0.0, 0.05, 0.12, 0.2]),
        "cond_depth": rng.choice([0, 1, 1, 2, 2]),
        "p_sing": rng.choice([0.0, 0.05, 0.15]),
        "p_const": rng.choice([0.0, 0.0, 0.1, 0.3, 0.3]),
        "layers": rng.choice([1, 2, 3, 5, 8]),
        "maxlen": rng.choice([1, 3, 6, 12]),
        "shuffle": rng.random() < 0.7,
        "annot": rng.random() < 0.5,
        "named_default": rng.random() < 0.25,
    }


def gen_model(rng, knobs: dict | None = None) -> str:
    """Generate one model text."""
    kn = dict(default_knobs(rng))
    if knobs:
        kn.update(knobs)
    used: set = set()
    maxlen = kn["maxlen"]
    # with 1-letter names and many symbols we would run out: widen
    total = kn["n_states"] + kn["n_params"] + kn["n_inter"]
    if maxlen == 1 and total > 30:
        maxlen = 3
    comps = []
    for i in range(kn["n_comp"]):
        if i == 0 and kn["n_comp"] > 1 and kn["named_default"] is False and rng.random() < 0.3:
            comps.append("")
        else:
            comps.append(
                rng.choice(["Na", "K ", "Ca", "membrane", "gate", "I", "x"]) + " " + ident(rng, set(), 6)
            )
    if kn["n_comp"] == 1 and not kn["named_default"]:
        comps = [""]
    # de-duplicate component names, keep order
    seen = []
    for c in comps:
        if c not in seen:
            seen.append(c)
    comps = seen
    # sometimes one extra doubly-tagged group, as in the shipped cardiac models:
    # states("Sodium current", "Sodium current m gate", m=...) / expressions("...", "...")
    named = [c for c in comps if c != ""]
    if named and rng.random() < 0.3:
        comps.append(named[0] + "|" + named[0] + " gate " + ident(rng, set(), 4))

    states = []  # (name, comp, value, unit, desc)
    for i in range(kn["n_states"]):
        comp = comps[i % len(comps)] if i < len(comps) else rng.choice(comps)
        states.append((ident(rng, used, maxlen), comp, number(rng)))
    params = []
    for i in range(kn["n_params"]):
        val = number(rng)
        if rng.random() < 0.08:  # a parameter whose value is itself a (numeric) expression
            val = rng.choice(["%s*%s", "%s/%s", "%s + %s", "exp(%s) - %s", "-(%s + %s)"]) % (number(rng), rng.choice(["2", "3.0", "0.5"]))
        params.append((ident(rng, used, maxlen), rng.choice(comps), val))

    state_names = [s[0] for s in states]
    param_names = [p[0] for p in params]

    # intermediates in layers: an intermediate may depend on states, parameters,
    # time and intermediates of strictly lower layers -> acyclic, with many ties
    n_layers = max(1, min(kn["layers"], max(1, kn["n_inter"])))
    inter = []  # (name, comp, deps)
    by_layer: list[list[str]] = [[] for _ in range(n_layers)]
    for i in range(kn["n_inter"]):
        layer = rng.randrange(n_layers)
        name = ident(rng, used, maxlen)
        pool_lower = [n for l in range(layer) for n in by_layer[l]]
        fan = rng.randrange(1, kn["max_fan"] + 1)
        if rng.random() < kn.get("p_const", 0.0):
            fan = 0  # a constant intermediate: no name on its right-hand side
        deps = []
        for _ in range(fan):
            r = rng.random()
            if pool_lower and r < 0.55:
                d = rng.choice(pool_lower)
            elif param_names and r < 0.7:
                d = rng.choice(param_names)
            elif r < 0.97:
                d = rng.choice(state_names)
            else:
                d = rng.choice(["t", "time"])
            if d not in deps:
                deps.append(d)
        by_layer[layer].append(name)
        inter.append((name, rng.choice(comps), deps))
    inter_names = [x[0] for x in inter]

    derivs = []
    for name, comp, _ in states:
        fan = rng.randrange(1, kn["max_fan"] + 1)
        deps = []
        for _ in range(fan):
            r = rng.random()
            if inter_names and r < 0.6:
                d = rng.choice(inter_names)
            elif r < 0.85:
                d = rng.choice(state_names)
            elif param_names:
                d = rng.choice(param_names)
            else:
                d = name
            if d not in deps:
                deps.append(d)
        if rng.random() < 0.6 and name not in deps:
            deps.append(name)  # own-state dependence: Rush-Larsen linearisation is non-trivial
        derivs.append(("d%s_dt" % name, comp, deps))

    # several constants feeding one consumer: in-degree-0 assignment nodes that are ready at
    # once are where any insertion-order dependence of the sorter shows
    consts = [n for (n, _c, d) in inter if not d]
    if len(consts) >= 2:
        consumers = [x for x in inter if x[2]] + derivs
        for _ in range(min(2, len(consumers))):
            tgt = rng.choice(consumers)
            for cname in rng.sample(consts, 2):
                if cname not in tgt[2] and cname != tgt[0]:
                    tgt[2].append(cname)

    def block(kind, comp, entries):
        head = '%s(%s,' % (kind, _tags(comp)) if comp != "" else "%s(" % kind
        body = []
        for name, value in entries:
            if kn["annot"] and rng.random() < 0.3:
                body.append(
                    '%s=ScalarParam(%s, unit="%s"%s)'
                    % (
                        name,
                        value,
                        rng.choice(["mV", "ms", "mM", "1", "uA*uF**-1"]),
                        ', description="d %s"' % name if rng.random() < 0.5 else "",
                    )
                )
            else:
                body.append("%s=%s" % (name, value))
        sep = ",\n    " if rng.random() < 0.5 else ", "
        return head + ("\n    " if "\n" in sep else "") + sep.join(body) + ")\n"

    chunks = []
    chunks.append("# generated model\n")
    for comp in comps:
        ss = [(n, v) for (n, c, v) in states if c == comp]
        # sometimes split the declarations of one component into two blocks
        if len(ss) > 1 and rng.random() < 0.3:
            k = rng.randrange(1, len(ss))
            chunks.append(block("states", comp, ss[:k]))
            chunks.append(block("states", comp, ss[k:]))
        elif ss:
            chunks.append(block("states", comp, ss))
        pp = [(n, v) for (n, c, v) in params if c == comp]
        if pp:
            chunks.append(block("parameters", comp, pp))
    for comp in comps:
        lines = []
        for name, c, deps in inter + derivs:
            if c != comp:
                continue
            rhs = expression(rng, deps, kn)
            line = "%s = %s" % (name, rhs)
            if kn["annot"] and rng.random() < 0.15:
                line += rng.choice([" # mV", " # ms**-1", " # a comment", " # uA*uF**-1"])
            lines.append(line)
        if not lines:
            continue
        if kn["shuffle"]:
            rng.shuffle(lines)
        head = 'expressions(%s)\n' % _tags(comp) if comp != "" else ""
        chunks.append(head + "\n".join(lines) + "\n")
    # The unnamed component's bare assignments must not directly follow another
    # expressions block (they would be absorbed by it): order blocks so that the
    # unnamed expressions come first among expression blocks.
    decl = [c for c in chunks if not _is_expr_block(c)]
    exprs = [c for c in chunks if _is_expr_block(c)]
    exprs.sort(key=lambda c: 0 if not c.startswith("expressions(") else 1)
    return "\n".join(decl + exprs)


def _tags(comp: str) -> str:
    return ", ".join('"%s"' % c for c in comp.split("|"))


def _is_expr_block(chunk: str) -> bool:
    if chunk.startswith("expressions("):
        return True
    if chunk.startswith(("states(", "parameters(", "#")):
        return False
    return True


# ---------------------------------------------------------------------------
# shipped models and small mutations of them

SHIPPED_DIR = Path("/repo/tests/odefiles")
SHIPPED = [
    "lorentz.ode",
    "fitzhughnagumo.ode",
    "beeler_reuter_1977.ode",
    "tentusscher_panfilov_2006_M_cell.ode",
    "ORdmm_Land.ode",
    "ToRORd_dyn_chloride.ode",
]
SHIPPED_SMALL = SHIPPED[:4]

_ASSIGN = re.compile(r"^([A-Za-z_]\w*) = ", re.M)


def shipped_text(name: str) -> str:
    return (SHIPPED_DIR / name).read_text()


def mutate_shipped(rng, text: str, n: int = 3) -> str:
    """Consistently rename up to n intermediates (changes hash residues, keeps meaning)."""
    names = [m.group(1) for m in _ASSIGN.finditer(text)]
    names = [x for x in names if not _DERIV.match(x)]
    # a name that is the <state> part of some d<state>_dt must stay
    uniq = []
    for x in names:
        if x not in uniq and len(x) > 1:
            uniq.append(x)
    if not uniq:
        return text
    rng.shuffle(uniq)
    for old in uniq[:n]:
        new = old + "_" + rng.choice(ALPHA) + str(rng.randrange(10))
        if re.search(r"\b%s\b" % re.escape(new), text):
            continue
        text = re.sub(r"\b%s\b" % re.escape(old), new, text)
    return text


_ASSIGN_LINE = re.compile(r"^([A-Za-z_]\w*) = (.+)$")


def edit_formulas(rng, text: str, n: int = 2) -> str:
    """An *edited sibling* of a model: same names, same dependency sets, same layout of
    the text, but n right-hand sides changed (the user edited an equation and reloads
    the file in a long-lived process)."""
    lines = text.split("\n")
    cands = []
    for i, ln in enumerate(lines):
        m = _ASSIGN_LINE.match(ln)
        if not m or "ScalarParam" in ln:
            continue
        rhs = m.group(2)
        body = rhs.split(" #")[0]
        if body.count("(") != body.count(")") or body.rstrip().endswith((",", "+", "-", "*", "/")):
            continue
        cands.append(i)
    rng.shuffle(cands)
    for i in sorted(cands[:n]):
        m = _ASSIGN_LINE.match(lines[i])
        rhs = m.group(2)
        body, sep, tail = rhs.partition(" #")
        form = rng.choice(["(%s)*1.5", "(%s) + 0.25", "-(%s)", "2*(%s) - 1"])
        lines[i] = "%s = %s%s%s" % (m.group(1), form % body.strip(), sep, tail)
    return "\n".join(lines)


# a hand-written model with non-ASCII text in comments, component names and descriptions
UNICODE_MODEL = """# Modèle d'essai — Ca²⁺ handling, µM units
states("Na µ", x=ScalarParam(1.0, unit="mV", description="potentiel à ° µ"), y=2.0)
parameters("Na µ", a=ScalarParam(0.5, description="taux α"), b=3.0)
states("K β", z=0.25)
expressions("Na µ")
k = a*x + b # ms**-1
dx_dt = -k*x + y
dy_dt = Conditional(Gt(x, 0.5), -y, y*b) # déclin
expressions("K β")
w = z*k - x
dz_dt = w - z
"""
