"""C18 world: a project directory among an environment, the real gotranx CLI executed
in it (in-process or as a real process), an executable reference model of the
*documented* CLI semantics, and the oracle.  See DESIGN §4.

Every operation takes concrete JSON-able arguments and is appended to `self.trace`,
so a session is replayable without Hypothesis (`replay_trace`).
"""

from __future__ import annotations

import io
import json
import os
import shutil
import subprocess
import sys
import tomllib
from pathlib import Path

from . import fsseam, obs

VERIF = Path(__file__).resolve().parent.parent
PY = os.environ.get("VERIF_PYTHON", "/venv/bin/python")
OUT_SUFFIXES = (".py", ".c", ".h", ".ode")
CELLML_DIR = Path(os.environ.get("VERIF_REPO", "/repo")) / "tests" / "cellml_files"

FAIL = "FAIL"  # a config candidate meaning "failing without output is admissible"


def toml_text(cfg: dict, black_table: bool) -> str:
    """Tiny TOML writer for the [tool.gotranx] tables."""
    def val(v):
        if isinstance(v, bool):
            return "true" if v else "false"
        if isinstance(v, (int, float)):
            return repr(float(v)) if isinstance(v, float) else str(v)
        if isinstance(v, str):
            return json.dumps(v)
        if isinstance(v, list):
            return "[" + ", ".join(val(x) for x in v) + "]"
        raise TypeError(v)

    lines = []
    if black_table:
        lines += ["[tool.black]", "line-length = 88", ""]
    lines.append("[tool.gotranx]")
    for k in ("verbose", "delta", "scheme", "stiff_states"):
        if k in cfg:
            lines.append("%s = %s" % (k, val(cfg[k])))
    for sub in ("python", "c"):
        if sub in cfg:
            lines += ["", "[tool.gotranx.%s]" % sub]
            for k in sorted(cfg[sub]):
                lines.append("%s = %s" % (k, val(cfg[sub][k])))
    return "\n".join(lines) + "\n"


def snapshot(proj: Path) -> dict:
    """relpath -> bytes for every regular file; directories as relpath + '/' -> None."""
    snap = {}
    for dirpath, dirnames, filenames in os.walk(proj):
        dirnames.sort()
        rel_dir = os.path.relpath(dirpath, proj)
        for d in dirnames:
            snap[os.path.normpath(os.path.join(rel_dir, d)) + "/"] = None
        for f in sorted(filenames):
            p = os.path.join(dirpath, f)
            try:
                with open(p, "rb") as fh:
                    snap[os.path.normpath(os.path.join(rel_dir, f))] = fh.read()
            except OSError:
                snap[os.path.normpath(os.path.join(rel_dir, f))] = b"<unreadable>"
    return snap


def restore(snap: dict, proj: Path):
    if proj.exists():
        shutil.rmtree(proj)
    proj.mkdir(parents=True)
    for rel in sorted(snap):
        if rel.endswith("/"):
            (proj / rel).mkdir(parents=True, exist_ok=True)
    for rel in sorted(snap):
        if not rel.endswith("/"):
            p = proj / rel
            p.parent.mkdir(parents=True, exist_ok=True)
            p.write_bytes(snap[rel])


def build_argv(op: dict, proj: Path) -> list:
    """The command line a user would type for this op, rooted at `proj`."""
    o = op.get("opts", {})
    cmd = op["cmd"]
    argv = [cmd]
    if op.get("fname") is not None:
        argv.append(op["fname"])
    if o.get("to") is not None and cmd in ("ode2c", "convert"):
        argv += ["--to", o["to"]]
    if o.get("outname") is not None:
        out = o["outname"]
        if out.startswith("ABS:"):
            out = str(proj / out[4:])
        argv += ["-o", out]
    if o.get("remove_unused") and cmd != "cellml2ode":
        argv.append("--remove-unused")
    if o.get("jax") and cmd == "convert":
        argv.append("--jax")
    if cmd != "cellml2ode":
        for s in o.get("scheme", []):
            argv += ["--scheme", s]
        for s in o.get("stiff", []):
            argv += ["-s", s]
        if o.get("delta") is not None:
            argv += ["--delta", repr(float(o["delta"]))]
    if o.get("format") is not None and cmd in ("ode2py", "ode2c"):
        argv += ["-f", o["format"]]
    if o.get("backend") is not None and cmd == "ode2py":
        argv += ["-b", o["backend"]]
    if o.get("config") is not None and cmd != "convert":
        argv += ["--config" if cmd == "cellml2ode" else "-c", o["config"]]
    if o.get("verbose"):
        argv.append("-v")
    return argv


def api_text(kind: str, data: bytes, stem: str, suffix: str, ro: dict, tmp: Path):
    """The library API on these bytes and (resolved) options; None when it raises."""
    try:
        if kind == "cellml":
            import gotranx.myokit as M

            if tmp.exists():
                shutil.rmtree(tmp)
            tmp.mkdir(parents=True)
            src = tmp / (stem + suffix)
            src.write_bytes(data)
            ode = M.cellml_to_gotran(src)
            out = tmp / "out.ode"
            ode.save(out)
            return out.read_bytes().decode("utf-8")
        from gotranx.load import ode_from_string
        from gotranx.schemes import Scheme

        src_text = data.decode("utf-8").replace("\r\n", "\n").replace("\r", "\n")
        ode = ode_from_string(src_text, name=stem)
        schemes = [Scheme(s) for s in ro["scheme"]]
        if kind == "py":
            from gotranx.cli import gotran2py
            from gotranx.codegen import PythonFormat

            return gotran2py.get_code(
                ode, scheme=schemes, format=PythonFormat(ro["format"]), remove_unused=ro["remove_unused"],
                stiff_states=list(ro["stiff"]), delta=ro["delta"], backend=gotran2py.Backend(ro["backend"]))
        from gotranx.cli import gotran2c
        from gotranx.codegen import CFormat

        return gotran2c.get_code(
            ode, scheme=schemes, format=CFormat(ro["format"]), remove_unused=ro["remove_unused"],
            stiff_states=list(ro["stiff"]), delta=ro["delta"])
    except BaseException as e:  # noqa: B036 - the API's own verdict, whatever it is
        if isinstance(e, (KeyboardInterrupt, SystemExit)):
            raise
        return None


REAL_CACHE: dict = {}  # (op, fault, stub mode, pre-state digest) -> real-process outcome (per worker process)


class World:
    def __init__(self, root: Path, pool: list, stub_available: bool, hash_key: str, mirror_salt: int = 0,
                 all_real: bool = False, mirror_rate: int = 32, sympy_seed: int = 0):
        self.root = Path(root)
        self.proj = self.root / "proj"
        self.proj.mkdir(parents=True, exist_ok=True)
        (self.proj / "sub").mkdir(exist_ok=True)
        (self.proj / "gen").mkdir(exist_ok=True)
        self.pool = pool
        self.stub_available = stub_available in (True, "present")
        self.stub_kind = stub_available if isinstance(stub_available, str) else ("present" if stub_available else "absent")
        self.stub_mode = "ok"
        self.hash_key = str(hash_key)
        self.armed = None
        self.trace: list = []
        self.events: list = []
        self.stats: dict = {}
        self.mirror_salt = mirror_salt
        self.all_real = all_real
        self.api_real = all_real
        self.sympy_seed = int(sympy_seed)
        self.mirror_rate = mirror_rate
        self.n_invoke = 0
        self.violation = None
        self._api_cache: dict = {}
        self.fault_free = True
        self.sigs: set = set()

    # ------------------------------------------------------------------ utilities
    def count(self, k: str, n: int = 1):
        self.stats[k] = self.stats.get(k, 0) + n

    def _cwd(self, op) -> Path:
        return self.proj / "sub" if op.get("cwd") == "sub" else self.proj

    @staticmethod
    def _put(path: Path, data):
        """Write a world file, replacing whatever (even a directory) sits there."""
        if path.is_dir() and not path.is_symlink():
            shutil.rmtree(path)
        path.parent.mkdir(parents=True, exist_ok=True)
        if isinstance(data, str):
            data = data.encode("utf-8")
        path.write_bytes(data)

    def _rel(self, p: Path) -> str:
        return os.path.normpath(os.path.relpath(p, self.proj))

    # ------------------------------------------------------------------------ ops
    def put_model(self, name: str, where: str, kind: str, idx: int):
        op = {"op": "put_model", "name": name, "where": where, "kind": kind, "idx": idx}
        self.trace.append(op)
        d = self.proj / "sub" if where == "sub" else self.proj
        if kind == "cellml":
            src = CELLML_DIR / "noble_1962.cellml"
            self._put(d / (name + ".cellml"), src.read_bytes())
        else:
            self._put(d / (name + ".ode"), self.pool[idx % len(self.pool)])
        self.count("put_model")

    def put_config(self, where: str, cfg: dict, black_table: bool):
        op = {"op": "put_config", "where": where, "cfg": cfg, "black_table": black_table}
        self.trace.append(op)
        text = toml_text(cfg, black_table)
        if where == "pyproject":
            self._put(self.proj / "pyproject.toml", text)
        elif where == "sub":
            self._put(self.proj / "sub" / "pyproject.toml", text)
        else:
            self._put(self.proj / "cfg" / "my.toml", text)
        self.count("put_config")

    def git_marker(self, on: bool):
        self.trace.append({"op": "git_marker", "on": on})
        g = self.proj / ".git"
        if on:
            g.mkdir(exist_ok=True)
        elif g.exists():
            shutil.rmtree(g)

    def set_stub_mode(self, mode: str):
        self.trace.append({"op": "stub_mode", "mode": mode})
        self.stub_mode = mode
        if mode != "ok":
            self.fault_free = False

    def damage(self, target: str, fault: str, k: int):
        """State faults on a file of the world (by relative path)."""
        op = {"op": "damage", "target": target, "fault": fault, "k": k}
        self.trace.append(op)
        p = self.proj / target
        if not p.is_file():
            self.count("damage_no_target")
            return
        self.fault_free = False
        data = p.read_bytes()
        n = len(data)
        if fault == "delete":
            p.unlink()
        elif fault == "empty":
            p.write_bytes(b"")
        elif fault == "truncate":
            p.write_bytes(data[: (k % n) if n else 0])
        elif fault == "flip":
            if n:
                i = k % n
                p.write_bytes(data[:i] + bytes([data[i] ^ (1 << (k % 7))]) + data[i + 1:])
        elif fault == "badutf8":
            i = k % (n + 1)
            p.write_bytes(data[:i] + b"\xff\xfe\xc3" + data[i:])
        elif fault == "latin1":
            # a latin-1 byte inside a comment (appended comment line if there is none):
            # not valid UTF-8, but harmless to a reader that drops undecodable bytes
            lines = data.split(b"\n")
            idx = [j for j, ln in enumerate(lines) if ln.lstrip().startswith(b"#")]
            if idx:
                j = idx[k % len(idx)]
                lines[j] = lines[j] + b" caf\xe9"
                p.write_bytes(b"\n".join(lines))
            else:
                p.write_bytes(b"# caf\xe9\n" + data)
        elif fault == "dir":
            p.unlink()
            p.mkdir()
        elif fault == "crlf":
            p.write_bytes(data.replace(b"\r\n", b"\n").replace(b"\n", b"\r\n"))
        elif fault == "bom":
            p.write_bytes(b"\xef\xbb\xbf" + data)
        elif fault == "dup_tail":
            i = k % (n + 1)
            p.write_bytes(data + data[i:])
        self.count("damage:" + fault)

    def arm(self, fault: str, which: str):
        """Call fault for the next invocation only. which: model | config | output."""
        self.trace.append({"op": "arm", "fault": fault, "which": which})
        self.armed = {"kind": fault, "which": which}
        self.fault_free = False
        self.count("armed:" + fault)

    # -------------------------------------------------------------------- reference
    def _parse_cfg(self, data):
        if data is None:
            return FAIL
        try:
            doc = tomllib.loads(data.decode("utf-8"))
        except Exception:
            return FAIL
        g = doc.get("tool", {})
        g = g.get("gotranx", {}) if isinstance(g, dict) else {}
        return g if isinstance(g, dict) else FAIL

    def config_candidates(self, op: dict, pre: dict, cfg_fault: bool) -> list:
        """Admissible config resolutions (DESIGN §4.2).  A list with more than one entry
        means the documentation does not pin the resolution down; FAIL means failing
        without output is admissible."""
        o = op.get("opts", {})
        cwd = self._cwd(op)
        if op["cmd"] == "convert":
            return [{}]
        if o.get("config") is not None:
            rel = self._rel(cwd / o["config"])
            cfg = self._parse_cfg(pre.get(rel))
            if cfg_fault or cfg is FAIL:
                return [{}, FAIL]
            return [cfg]
        in_proj = op.get("cwd") != "sub"
        if in_proj and ".git/" in pre:
            if "pyproject.toml" not in pre:
                return [{}]
            cfg = self._parse_cfg(pre["pyproject.toml"])
            if cfg_fault or cfg is FAIL:
                return [{}, FAIL]
            return [cfg]
        # undocumented discovery territory: accept "no config" and every config an
        # ancestor offers (and failure if one of them is unreadable)
        cands: list = [{}]
        for rel in (["sub/pyproject.toml"] if not in_proj else []) + ["pyproject.toml"]:
            if rel in pre:
                cfg = self._parse_cfg(pre[rel])
                if cfg_fault:
                    cands.append(FAIL)
                if cfg not in cands:
                    cands.append(cfg)
        return cands

    def _api(self, kind: str, data: bytes, stem: str, suffix: str, ro: dict):
        """Text the library API produces for these bytes and options; None if the API
        raises (the model is then *invalid* for the purpose of the property).

        In-process by default.  When a candidate violation is being confirmed (and in
        replays) the API runs in a fresh process seeded like the CLI process, so that the
        two sides start from the same sympy state (cold cache, same RNG seed)."""
        real = self.api_real
        key = obs.sha(data) + "|" + kind + "|" + stem + suffix + "|" + obs.canon(ro) + "|" + self.stub_mode + ("|real" if real else "")
        if key in self._api_cache:
            return self._api_cache[key]
        os.environ["VERIF_STUB_MODE"] = self.stub_mode
        tmp = self.root / "apitmp"
        if tmp.exists():
            shutil.rmtree(tmp)
        tmp.mkdir(parents=True)
        if real:
            (tmp / "data.bin").write_bytes(data)
            plan = tmp / "plan.json"
            with open(plan, "w") as fh:
                fh.write(json.dumps({"mode": "api", "kind": kind, "data": str(tmp / "data.bin"), "stem": stem, "suffix": suffix,
                                     "ro": ro, "out": str(tmp / "api_out.txt"), "tmp": str(tmp / "w"), "sympy_seed": self.sympy_seed}))
            env = dict(os.environ)
            env["VERIF_STUB_MODE"] = self.stub_mode
            env["PYTHONHASHSEED"] = self.hash_key
            subprocess.run([PY, str(VERIF / "sim" / "cli_launcher.py"), str(plan)], cwd=str(tmp), env=env,
                           stdin=subprocess.DEVNULL, stdout=subprocess.DEVNULL, stderr=subprocess.DEVNULL, timeout=600)
            outp = tmp / "api_out.txt"
            text = None
            if outp.exists():
                with open(outp, "rb") as fh:
                    raw = fh.read()
                text = raw[3:].decode("utf-8") if raw.startswith(b"OK\n") else None
            self.count("api_real_process_runs")
        else:
            text = api_text(kind, data, stem, suffix, ro, tmp / "w")
        self._api_cache[key] = text
        return text

    def _out_paths(self, cwd: Path, mpath: Path, outname, suffix: str, pre: dict, literal: bool = False):
        """Admissible output locations (relative to proj) and whether failure is admissible."""
        if outname is None:
            p0 = self._rel(mpath.with_suffix(suffix))
            return [p0], (p0 + "/") in pre
        out = Path(outname[4:]) if outname.startswith("ABS:") else Path(outname)
        out = (self.proj / out) if outname.startswith("ABS:") else (cwd / out)
        if literal:
            paths = [self._rel(out)]
        else:
            paths = [self._rel(out.with_suffix(suffix))]
            if out.suffix not in ("", suffix):
                paths.append(self._rel(out))  # "-o out.txt": name kept or suffix replaced, both honour -o
        parent = self._rel(out.parent)
        # the output location itself may be unusable: its directory is missing, or a
        # directory sits where the file should go (the "dir" state fault hit an earlier
        # output) - failing without output is then admissible, as is replacing it
        may_fail = not (parent == "." or (parent + "/") in pre) or any((p + "/") in pre for p in paths)
        return paths, may_fail

    def expectations(self, op: dict, pre: dict, fired: str | None) -> list:
        """List of admissible outcomes:
        ("success", relpath, bytes) | ("failure",) | ("nonzero",) | ("unjudged",)."""
        cmd, o = op["cmd"], op.get("opts", {})
        if op.get("fname") is None:
            return [("unjudged",)]
        cwd = self._cwd(op)
        mpath = cwd / op["fname"]
        mrel = self._rel(mpath)
        if fired in ("write_enospc", "write_partial"):
            return [("nonzero",)]
        if fired in ("read_eio:model", "read_eacces:model", "vanish:model", "vanish_at_open:model"):
            return [("failure",)]
        data = pre.get(mrel)
        if data is None:
            return [("failure",)]  # missing, or a directory
        exps = []
        for cfg in self.config_candidates(op, pre, fired in ("read_eio:config", "read_eacces:config", "vanish:config", "vanish_at_open:config")):
            if cfg is FAIL:
                exps.append(("failure",))
                continue
            try:
                exps += self._expect_with_cfg(op, cmd, o, cfg, cwd, mpath, data, pre)
            except Exception:
                # a config with values outside the documented domains: not judged
                exps.append(("unjudged",))
        return exps

    def _expect_with_cfg(self, op, cmd, o, cfg, cwd, mpath, data, pre) -> list:
        stem, suffix = mpath.stem, mpath.suffix
        if cmd == "convert":
            to = o.get("to") or ""
            if to == "":
                if o.get("outname") is None:
                    return [("unjudged",)]
                to = Path(o["outname"]).suffix
            if to in (".c", ".h", "c"):
                kind, sfx = "c", (".c" if to == "c" else to)
                ro = {"scheme": o.get("scheme", []), "format": "clang-format", "remove_unused": bool(o.get("remove_unused")),
                      "stiff": o.get("stiff", []), "delta": o.get("delta", 1e-8)}
            elif to in (".py", "py", "python"):
                kind, sfx = "py", ".py"
                ro = {"scheme": o.get("scheme", []), "format": "black", "remove_unused": bool(o.get("remove_unused")),
                      "stiff": o.get("stiff", []), "delta": o.get("delta", 1e-8),
                      "backend": "jax" if o.get("jax") else "numpy"}
            elif to == ".ode":
                return self._expect_cellml(o, cwd, mpath, data, pre)
            else:
                return [("unjudged",)]
        elif cmd == "ode2py":
            kind, sfx = "py", ".py"
            pyc = cfg.get("python", {}) if isinstance(cfg.get("python", {}), dict) else {}
            ro = {"scheme": cfg.get("scheme", o.get("scheme", [])),
                  "format": pyc.get("format", o.get("format") or "black"),
                  "remove_unused": bool(o.get("remove_unused")),
                  "stiff": cfg.get("stiff_states", o.get("stiff", [])),
                  "delta": cfg.get("delta", o.get("delta", 1e-8)),
                  "backend": pyc.get("backend", o.get("backend") or "numpy")}
        elif cmd == "ode2c":
            cc = cfg.get("c", {}) if isinstance(cfg.get("c", {}), dict) else {}
            kind, sfx = "c", cc.get("to", o.get("to") or ".h")
            ro = {"scheme": cfg.get("scheme", o.get("scheme", [])),
                  "format": cc.get("format", o.get("format") or "clang-format"),
                  "remove_unused": bool(o.get("remove_unused")),
                  "stiff": cfg.get("stiff_states", o.get("stiff", [])),
                  "delta": cfg.get("delta", o.get("delta", 1e-8))}
        elif cmd == "cellml2ode":
            return self._expect_cellml(o, cwd, mpath, data, pre)
        else:
            return [("unjudged",)]
        ro["delta"] = float(ro["delta"])
        text = self._api(kind, data, stem, suffix, ro)
        if text is None:
            return [("failure",)]
        paths, may_fail = self._out_paths(cwd, mpath, o.get("outname"), sfx, pre)
        exps = [("success", p, text.encode("utf-8")) for p in paths]
        if may_fail:
            exps.append(("failure",))
        return exps

    def _expect_cellml(self, o, cwd, mpath, data, pre) -> list:
        if mpath.suffix not in (".cellml", ".xml"):
            return [("failure",)]
        text = self._api("cellml", data, mpath.stem, mpath.suffix, {})
        if text is None:
            return [("failure",)]
        paths, may_fail = self._out_paths(cwd, mpath, o.get("outname"), ".ode", pre, literal=True)
        exps = [("success", p, text.encode("utf-8")) for p in paths]
        if may_fail:
            exps.append(("failure",))
        return exps

    # ----------------------------------------------------------------------- oracle
    @staticmethod
    def judge(exps: list, pre: dict, post: dict, code: int, ignore_deleted: set) -> tuple[bool, str]:
        if any(e[0] == "unjudged" for e in exps):
            return True, "unjudged"
        changed = sorted(r for r in post if not r.endswith("/") and pre.get(r) != post.get(r))
        watch = set()
        for e in exps:
            if e[0] == "success":
                watch.add(e[1])
        out_changed = [r for r in changed if r.endswith(OUT_SUFFIXES) or r in watch]
        why = []
        for e in exps:
            if e[0] == "success":
                if code == 0 and post.get(e[1]) == e[2] and all(r == e[1] for r in out_changed):
                    return True, "success"
                if code != 0:
                    why.append("exit %s on a valid model" % code)
                elif post.get(e[1]) != e[2]:
                    why.append("%s does not hold the API text (%s)" % (e[1], "absent" if e[1] not in post else "differs"))
                else:
                    why.append("other output files touched: %s" % [r for r in out_changed if r != e[1]])
            elif e[0] == "failure":
                if code != 0 and not out_changed:
                    return True, "failure"
                if code == 0:
                    why.append("exit 0 on an invalid/missing/unreadable model")
                else:
                    why.append("failed but wrote %s" % out_changed)
            elif e[0] == "nonzero":
                if code != 0:
                    return True, "nonzero"
                why.append("exit 0 although the write failed")
        return False, "; ".join(sorted(set(why)))

    # ----------------------------------------------------------------------- invoke
    def _fault_plan(self, op) -> dict | None:
        if not self.armed:
            return None
        cwd = self._cwd(op)
        which = self.armed["which"]
        if which == "model" and op.get("fname") is not None:
            target = os.path.realpath(cwd / op["fname"])
        elif which == "config":
            cfgp = op.get("opts", {}).get("config")
            target = os.path.realpath(cwd / cfgp) if cfgp else os.path.realpath(self.proj / "pyproject.toml")
        else:
            target = None
        return {"kind": self.armed["kind"], "target": target, "which": which, "under": os.path.realpath(self.proj)}

    def _run_inproc(self, op, argv, fault) -> tuple[int, int]:
        import typer.main
        import structlog
        import logging
        import black.files as bf
        import warnings
        from gotranx.cli import app

        for n in ("_load_toml", "_cached_resolve", "find_project_root", "find_user_pyproject_toml", "get_gitignore"):
            f = getattr(bf, n, None)
            if hasattr(f, "cache_clear"):
                f.cache_clear()
        structlog.configure(wrapper_class=structlog.make_filtering_bound_logger(logging.INFO))
        os.environ["VERIF_STUB_MODE"] = self.stub_mode
        old_cwd = os.getcwd()
        os.chdir(self._cwd(op))
        old_out, old_err = sys.stdout, sys.stderr
        sys.stdout, sys.stderr = io.StringIO(), io.StringIO()
        fsseam.arm(fault)
        code = 1
        try:
            with warnings.catch_warnings():
                warnings.simplefilter("ignore")
                try:
                    typer.main.get_command(app).main(args=list(argv), prog_name="gotranx", standalone_mode=True)
                    code = 0
                except SystemExit as e:
                    code = e.code if isinstance(e.code, int) else (0 if e.code is None else 1)
                except KeyboardInterrupt:
                    raise
                except BaseException:  # noqa: B036 - an uncaught exception ends a real process with status 1
                    code = 1
        finally:
            nf = fsseam.disarm()
            sys.stdout, sys.stderr = old_out, old_err
            os.chdir(old_cwd)
        return code, nf

    def _run_real(self, op, pre: dict, fault) -> tuple[int, int, dict]:
        """The same invocation as a real process in a fresh copy of the pre-state."""
        ck = obs.sha(obs.canon([op, fault and [fault["kind"], fault["which"]], self.stub_mode, self.stub_available,
                                 sorted((k, obs.sha(v) if v is not None else None) for k, v in pre.items())]))
        if ck in REAL_CACHE:
            self.count("real_process_cache_hits")
            return REAL_CACHE[ck]
        out = self._run_real_uncached(op, pre, fault)
        REAL_CACHE[ck] = out
        return out

    def _run_real_uncached(self, op, pre: dict, fault) -> tuple[int, int, dict]:
        mroot = self.root / "mirror"
        if mroot.exists():
            shutil.rmtree(mroot)
        mproj = mroot / "proj"
        restore(pre, mproj)
        argv = build_argv(op, mproj)
        f2 = None
        if fault:
            f2 = dict(fault)
            if f2.get("target"):
                f2["target"] = os.path.realpath(str(f2["target"]).replace(os.path.realpath(self.proj), os.path.realpath(mproj), 1))
            f2["under"] = os.path.realpath(mproj)
        plan = mroot / "plan.json"
        with open(plan, "w") as fh:
            fh.write(json.dumps({"argv": argv, "fault": f2, "sympy_seed": self.sympy_seed}))
        env = dict(os.environ)
        env["VERIF_STUB_MODE"] = self.stub_mode
        env["PYTHONHASHSEED"] = self.hash_key
        cwd = mproj / "sub" if op.get("cwd") == "sub" else mproj
        cp = subprocess.run([PY, str(VERIF / "sim" / "cli_launcher.py"), str(plan)], cwd=str(cwd), env=env,
                            stdin=subprocess.DEVNULL, stdout=subprocess.DEVNULL, stderr=subprocess.DEVNULL, timeout=600)
        nf = 0
        fp = str(plan) + ".fired"
        if os.path.exists(fp):
            with open(fp) as fh:
                nf = json.loads(fh.read()).get("fired", 0)
        post = snapshot(mproj)
        return cp.returncode, nf, post

    def invoke(self, op: dict):
        """Run one CLI invocation, judge it, confirm candidates in a real process."""
        op = dict(op, op="invoke")
        self.trace.append(op)
        self.n_invoke += 1
        self.count("invoke")
        self.count("cmd:" + op["cmd"])
        pre = snapshot(self.proj)
        fault = self._fault_plan(op)
        self.armed = None
        argv = build_argv(op, self.proj)
        if self.all_real:
            code, nf, post = self._run_real(op, pre, fault)
            restore(post, self.proj)  # the world continues from what the real process left
        else:
            code, nf = self._run_inproc(op, argv, fault)
            post = snapshot(self.proj)
        fired = None
        if fault and nf:
            fired = fault["kind"] + (":" + fault["which"] if fault["kind"].startswith(("read", "vanish")) else "")
            self.count("fired:" + fault["kind"])
        exps = self.expectations(op, pre, fired)
        ign = set()
        ok, why = self.judge(exps, pre, post, code, ign)
        self._probes(op, pre, post, exps, code, ok, why, fired)
        ev = {"n": self.n_invoke, "argv": argv[:1] + [a.replace(str(self.proj), "$PROJ") for a in argv[1:]], "cwd": op.get("cwd", "."),
              "code": code, "verdict": why if ok else "BAD: " + why, "fired": fired, "stub": self.stub_mode if self.stub_available else self.stub_kind}
        self.events.append(ev)
        if not ok and not self.all_real:
            # candidate: only a violation if a real process shows it too
            self.count("candidates")
            code2, nf2, post2 = self._run_real(op, pre, fault)
            fired2 = fired if (fault and nf2) else None
            self.api_real = True  # both sides in fresh, equally seeded processes
            try:
                exps2 = self.expectations(op, pre, fired2)
            finally:
                self.api_real = self.all_real
            ok2, why2 = self.judge(exps2, pre, post2, code2, ign)
            if ok2:
                self.count("candidates_not_confirmed")
                ev["verdict"] = "unconfirmed candidate: " + why
                return
            self.count("candidates_confirmed_in_real_process")
            why, code = why2, code2
            ok = False
        elif ok and not self.all_real and self._mirror_due():
            self.count("real_process_mirrors")
            code2, nf2, post2 = self._run_real(op, pre, fault)
            same = (code2 == 0) == (code == 0) and self._diff(pre, post) == self._diff(pre, post2)
            if not same:
                self.count("fidelity_mismatch")
                ev["fidelity"] = "MISMATCH in-process code=%s real code=%s" % (code, code2)
        if not ok:
            self.violation = {"why": why, "argv": ev["argv"], "cwd": op.get("cwd", "."), "code": code, "fired": fired,
                              "cmd": op["cmd"], "stub": ev["stub"],
                              "expected": [e[0] + (":" + e[1] if e[0] == "success" else "") for e in exps]}
            raise AssertionError("C18 violated: %s :: %s" % (" ".join(ev["argv"]), why))

    def _mirror_due(self) -> bool:
        if self.mirror_rate <= 0:
            return False
        h = int(obs.sha("%d|%d|%s" % (self.mirror_salt, self.n_invoke, obs.canon(self.trace[-1])))[:8], 16)
        return h % self.mirror_rate == 0

    @staticmethod
    def _diff(pre: dict, post: dict) -> list:
        keys = sorted(set(pre) | set(post))
        return [(k, obs.sha(post[k]) if post.get(k) is not None else None) for k in keys if pre.get(k) != post.get(k)]

    def _probes(self, op, pre, post, exps, code, ok, why, fired):
        o = op.get("opts", {})
        # distinct non-trivial case = (command, option tuple, fault that fired, formatter
        # environment, outcome class, whether an output pre-existed)
        nondefault = any(o.get(k) for k in ("scheme", "stiff", "delta", "remove_unused", "format", "backend", "to", "outname", "config", "jax"))
        if (why == "success" and nondefault) or fired:
            pre_out = any(r.endswith((".py", ".c", ".h")) for r in pre if not r.endswith("/"))
            self.sigs.add(obs.sha(obs.canon([op["cmd"], sorted((k, v) for k, v in o.items() if k != "verbose"), fired,
                                            self.stub_kind, self.stub_mode, why, pre_out, op.get("cwd", ".")]))[:16])
        if why == "success":
            self.count("outcome:success")
            e = next((x for x in exps if x[0] == "success" and post.get(x[1]) == x[2]), None)
            if e is None:
                return
            if e[1] in pre and len(pre[e[1]]) > len(e[2]):
                self.count("preexisting_longer_output_overwritten")
            if e[1] in pre:
                self.count("preexisting_output_overwritten")
            if any(o.get(k) for k in ("scheme", "stiff", "delta", "remove_unused", "format", "backend", "to", "outname", "config", "jax")):
                self.count("success_with_nondefault_option")
            if len(exps) == 1 and op["cmd"] in ("ode2py", "ode2c"):
                cfgs = self.config_candidates(op, pre, False)
                if len(cfgs) == 1 and isinstance(cfgs[0], dict):
                    c = cfgs[0]
                    pairs = [("delta", "delta"), ("scheme", "scheme"), ("stiff_states", "stiff")]
                    hit = any(k in c and ck in o and c[k] != o[ck] for k, ck in pairs)
                    sub = c.get("python" if op["cmd"] == "ode2py" else "c", {})
                    hit = hit or any(k in sub and k in o and sub[k] != o[k] for k in ("format", "backend", "to"))
                    if hit:
                        self.count("config_overrode_cli_value")
                    if c:
                        self.count("config_applied_unambiguously")
            if b"formatted-by-stub" in e[2]:
                self.count("formatter_stub_applied")
            if any(len(set(o.get(k, []))) < len(o.get(k, [])) for k in ("scheme", "stiff")):
                self.count("success_with_repeated_scheme_or_stiff_option")
            if any(ch in op["fname"] for ch in " \u03b1"):
                self.count("success_with_space_or_non_ascii_model_name")
            if op["cmd"] in ("ode2c", "convert") and e[1].endswith((".c", ".h")) and self.stub_kind == "real":
                self.count("c_output_with_real_clang_format_env")
            if op["cmd"] == "ode2py" and op["fname"].endswith(".ode") and any(
                    t.get("op") == "invoke" and t.get("cmd") in ("cellml2ode", "convert") for t in self.trace[:-1]):
                self.count("pipeline_after_cellml")
        elif why == "failure":
            self.count("outcome:failure")
            if any(r.endswith((".py", ".c", ".h")) for r in pre if not r.endswith("/")):
                self.count("failure_with_preexisting_output")
        elif why == "nonzero":
            self.count("outcome:write_fault_nonzero")
        elif why == "unjudged":
            self.count("outcome:unjudged")
        if len(exps) > 1:
            self.count("ambiguous_expectation_sets")
        if self.stub_kind == "absent" and op["cmd"] in ("ode2c", "convert"):
            self.count("formatter_missing_env")

    # ----------------------------------------------------------------------- replay
    def apply(self, op: dict):
        k = op["op"]
        if k == "put_model":
            self.put_model(op["name"], op["where"], op["kind"], op["idx"])
        elif k == "put_config":
            self.put_config(op["where"], op["cfg"], op["black_table"])
        elif k == "git_marker":
            self.git_marker(op["on"])
        elif k == "stub_mode":
            self.set_stub_mode(op["mode"])
        elif k == "damage":
            self.damage(op["target"], op["fault"], op["k"])
        elif k == "arm":
            self.arm(op["fault"], op["which"])
        elif k == "invoke":
            self.invoke({x: y for x, y in op.items() if x != "op"})
        else:
            raise ValueError(k)
